#!/usr/bin/env python3
"""seedeval — confirm a sub-agent written breakage and run the checks against it.

  ./seedeval.py <ID> <outdir> [--name NAME] [--checks C01,C08] [--thorough]

<outdir> holds patch.diff, demo_test.go and NOTES.md written by a seeding agent.
Steps (all in a scratch worktree under /tmp, removed afterwards):
  1. patch applies, builds with and without the verif tag
  2. the repository's own suite passes with the patch
  3. the demonstration fails with the patch and passes without it
Then the patch is applied to /repo itself, the named checks (default: the
property's own) run in their quick tier (thorough with --thorough if quick
misses), and /repo is restored (git checkout -- .). The result is written to
/verif/seeded/<NAME>/{patch.diff,demo_test.go,NOTES.md,meta.json}.
"""
import json, os, re, shutil, subprocess, sys, time

VERIF = os.path.dirname(os.path.abspath(__file__))


def sh(cmd, cwd=None, timeout=3600):
    env = dict(os.environ, GOFLAGS="-mod=mod", GOPROXY="off")
    env.pop("GOTOOLCHAIN", None)
    p = subprocess.run(cmd, cwd=cwd, shell=True, env=env, stdout=subprocess.PIPE, stderr=subprocess.STDOUT, text=True, timeout=timeout)
    return p.returncode, p.stdout


def main():
    a = sys.argv[1:]
    pid, out = a[0], a[1]
    name = pid
    checks = [pid]
    thorough = "--thorough" in a
    racedemo = "-race " if "--race-demo" in a else ""
    if "--name" in a:
        name = a[a.index("--name") + 1]
    if "--checks" in a:
        checks = a[a.index("--checks") + 1].split(",")
    patch = os.path.join(out, "patch.diff")
    demo = os.path.join(out, "demo_test.go")
    notes = open(os.path.join(out, "NOTES.md")).read() if os.path.exists(os.path.join(out, "NOTES.md")) else ""
    meta = {"property": pid, "name": name, "confirmed": {}, "checks": {}, "ran": []}

    # where does the demo go: first "package x" line decides; NOTES may name a directory
    pkg = re.search(r"^package (\w+)", open(demo).read(), re.M).group(1)
    demodir = {"gabi": ".", "gabi_test": "."}.get(pkg, pkg.replace("_test", ""))
    wt = "/tmp/seedeval-%s" % name
    sh("git -C /repo worktree remove --force %s" % wt)
    rc, o = sh("git -C /repo worktree add -q --detach %s HEAD" % wt)
    try:
        for cand in [demodir, "revocation", "rangeproof", "gabikeys", "keyproof", "safeprime", "internal/common", "signed", "big", "zkproof"]:
            if os.path.isdir(os.path.join(wt, cand)):
                g = subprocess.run("ls %s/*.go | xargs grep -l '^package %s$' | head -1" % (os.path.join(wt, cand), pkg.replace("_test", "")), shell=True, stdout=subprocess.PIPE, text=True).stdout.strip()
                if g:
                    demodir = cand
                    break
        meta["demo_dir"] = demodir
        rc, o = sh("git apply --check %s && git apply %s" % (patch, patch), cwd=wt)
        meta["confirmed"]["applies"] = rc == 0
        if rc != 0:
            meta["error"] = o[-2000:]
            return finish(meta, out, name)
        rc1, o1 = sh("go build ./... && go build -tags verif ./...", cwd=wt)
        meta["confirmed"]["builds"] = rc1 == 0
        t0 = time.time()
        rc2, o2 = sh("go test -vet=off -count=1 -timeout 25m ./...", cwd=wt)
        for _ in range(2):
            # the repository's own suite is flaky at the 1% level (known finding C11: honest non-revocation
            # proofs rejected with probability ~2^-12 per hidden attribute): retry failing packages
            if rc2 == 0:
                break
            failed = [l.split()[1] for l in o2.splitlines() if l.startswith("FAIL\t")]
            meta.setdefault("suite_retries", []).append(failed)
            if not failed:
                break
            rc2, o2 = sh("go test -vet=off -count=1 -timeout 25m %s" % " ".join(failed), cwd=wt)
        meta["confirmed"]["suite_passes_with_patch"] = rc2 == 0
        meta["suite_s"] = round(time.time() - t0)
        if rc2 != 0:
            meta["suite_output_tail"] = o2[-1500:]
        shutil.copy(demo, os.path.join(wt, demodir, "zz_seeded_demo_test.go"))
        rc3, o3 = sh("go test %s-vet=off -count=1 -run 'TestSeeded' ./%s" % (racedemo, demodir), cwd=wt)
        meta["confirmed"]["demo_fails_with_patch"] = rc3 != 0 and "FAIL" in o3 and "build failed" not in o3 and "[setup failed]" not in o3
        meta["demo_with_patch_tail"] = o3[-800:]
        sh("git apply -R %s" % patch, cwd=wt)
        rc4, o4 = sh("go test %s-vet=off -count=1 -run 'TestSeeded' ./%s" % (racedemo, demodir), cwd=wt)
        meta["confirmed"]["demo_passes_without_patch"] = rc4 == 0
        if rc4 != 0:
            meta["demo_without_patch_tail"] = o4[-800:]
        meta["ran"] += ["git apply patch.diff (scratch worktree)", "go build ./... && go build -tags verif ./...", "go test -vet=off -count=1 ./... (with patch)",
                        "go test -run TestSeeded ./%s (with patch: must fail; without: must pass)" % demodir]
    finally:
        sh("git -C /repo worktree remove --force %s" % wt)
    ok = all(meta["confirmed"].get(k) for k in ("applies", "builds", "suite_passes_with_patch", "demo_fails_with_patch", "demo_passes_without_patch"))
    meta["kept"] = ok
    if not ok:
        return finish(meta, out, name)

    # run the checks against /repo with the patch applied
    rc, o = sh("git -C /repo status --porcelain")
    if o.strip():
        meta["error"] = "/repo not clean"
        return finish(meta, out, name)
    try:
        rc, o = sh("git -C /repo apply %s" % patch)
        for c in checks:
            for tier in (["quick", "thorough"] if thorough else ["quick"]):
                t0 = time.time()
                rc, o = sh("./check %s %s" % (c, tier), cwd=VERIF, timeout=7200)
                viol = [l for l in o.splitlines() if l.startswith("VIOLATION") or l.startswith("  class=")]
                meta["checks"]["%s/%s" % (c, tier)] = {"exit": rc, "caught": rc == 1, "wall_s": round(time.time() - t0), "violations": viol[:6],
                                                       "summary": [l for l in o.splitlines() if l.startswith(c + " ")][-1:]}
                meta["ran"].append("git -C /repo apply patch.diff; ./check %s %s; git -C /repo checkout -- ." % (c, tier))
                if rc == 1:
                    break
    finally:
        sh("git -C /repo checkout -- .")
    return finish(meta, out, name)


def finish(meta, out, name):
    d = os.path.join(VERIF, "seeded", name)
    os.makedirs(d, exist_ok=True)
    for f in ("patch.diff", "demo_test.go", "NOTES.md"):
        if os.path.exists(os.path.join(out, f)):
            shutil.copy(os.path.join(out, f), os.path.join(d, f))
    json.dump(meta, open(os.path.join(d, "meta.json"), "w"), indent=1)
    print(json.dumps({k: meta[k] for k in ("name", "confirmed", "kept", "checks") if k in meta}, indent=1)[:3000])
    if meta.get("error"):
        print("ERROR", meta["error"][:500])


if __name__ == "__main__":
    main()
