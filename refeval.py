#!/usr/bin/env python3
"""refeval — run every quick check against a behaviour-preserving refactoring (false-alarm test).

  ./refeval.py <name> <outdir>     outdir holds patch.diff and NOTES.md written by a refactoring agent

The patch is confirmed in a scratch worktree (applies, builds with and without the tag, vet, suite
passes), applied to /repo, all quick checks run, /repo restored. Result: /verif/seeded/refactors/<name>/.
"""
import json, os, shutil, subprocess, sys, time
VERIF = os.path.dirname(os.path.abspath(__file__))
sys.path.insert(0, VERIF)
from checkconf import PROPS


def sh(cmd, cwd=None, timeout=7200):
    env = dict(os.environ, GOFLAGS="-mod=mod", GOPROXY="off")
    env.pop("GOTOOLCHAIN", None)
    p = subprocess.run(cmd, cwd=cwd, shell=True, env=env, stdout=subprocess.PIPE, stderr=subprocess.STDOUT, text=True, timeout=timeout)
    return p.returncode, p.stdout


name, out = sys.argv[1], sys.argv[2]
patch = os.path.join(out, "patch.diff")
meta = {"name": name, "kind": "behaviour-preserving refactoring", "confirmed": {}, "checks": {}}
wt = "/tmp/refeval-%s" % name
sh("git -C /repo worktree remove --force %s" % wt)
sh("git -C /repo worktree add -q --detach %s HEAD" % wt)
try:
    rc, o = sh("git apply --check %s && git apply %s" % (patch, patch), cwd=wt)
    meta["confirmed"]["applies"] = rc == 0
    if rc == 0:
        rc, o = sh("go build ./... && go build -tags verif ./... && go vet ./...", cwd=wt)
        meta["confirmed"]["builds_and_vets"] = rc == 0
        rc, o = sh("go test -vet=off -count=1 -timeout 25m ./...", cwd=wt)
        if rc != 0:
            failed = [l.split()[1] for l in o.splitlines() if l.startswith("FAIL\t")]
            if failed:
                rc, o = sh("go test -vet=off -count=1 -timeout 25m %s" % " ".join(failed), cwd=wt)
        meta["confirmed"]["suite_passes"] = rc == 0
        rc, o = sh("git diff --stat | tail -1", cwd=wt)
        meta["diffstat"] = o.strip()
finally:
    sh("git -C /repo worktree remove --force %s" % wt)
if all(meta["confirmed"].values()) and len(meta["confirmed"]) == 3:
    rc, o = sh("git -C /repo status --porcelain")
    assert not o.strip(), "/repo not clean"
    try:
        sh("git -C /repo apply %s" % patch)
        for pid in sorted(PROPS):
            t0 = time.time()
            rc, o = sh("./check %s quick" % pid, cwd=VERIF)
            meta["checks"][pid] = {"exit": rc, "quiet": rc == 0, "wall_s": round(time.time() - t0),
                                   "violations": [l for l in o.splitlines() if l.startswith("VIOLATION") or l.startswith("  class=")][:4]}
    finally:
        sh("git -C /repo checkout -- .")
d = os.path.join(VERIF, "seeded", "refactors", name)
os.makedirs(d, exist_ok=True)
for f in ("patch.diff", "NOTES.md"):
    if os.path.exists(os.path.join(out, f)):
        shutil.copy(os.path.join(out, f), os.path.join(d, f))
json.dump(meta, open(os.path.join(d, "meta.json"), "w"), indent=1)
print(name, meta["confirmed"], {k: v["quiet"] for k, v in meta["checks"].items()})
