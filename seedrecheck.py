#!/usr/bin/env python3
"""seedrecheck — run the final checks once more against every stored seeded change.

  ./seedrecheck.py [NAME ...]        (default: all of /verif/seeded/C*-*)

For each change: /repo must be clean; the stored patch.diff (rebased onto the current tree where
later fix: commits touched the same lines; the agent's original is kept as patch.orig.diff) is
applied to /repo, the quick tier of the checks named in its meta.json is run with a reduced budget,
and /repo is restored. Results go to /verif/seeded/recheck.json (read by mkreadme.py).
"""
import glob, json, os, subprocess, sys, time

VERIF = os.path.dirname(os.path.abspath(__file__))


def sh(cmd, cwd=None, env=None):
    e = dict(os.environ, GOFLAGS="-mod=mod", GOPROXY="off")
    e.pop("GOTOOLCHAIN", None)
    e.update(env or {})
    p = subprocess.run(cmd, cwd=cwd, shell=True, env=e, stdout=subprocess.PIPE, stderr=subprocess.STDOUT, text=True)
    return p.returncode, p.stdout


def main():
    names = sys.argv[1:] or [os.path.basename(os.path.dirname(p)) for p in sorted(glob.glob(os.path.join(VERIF, "seeded", "C*-*", "meta.json")))]
    out_path = os.path.join(VERIF, "seeded", "recheck.json")
    res = json.load(open(out_path)) if os.path.exists(out_path) else {}
    head = sh("git -C /repo log --format=%h -1")[1].strip()
    for n in names:
        d = os.path.join(VERIF, "seeded", n)
        meta = json.load(open(os.path.join(d, "meta.json")))
        checks = sorted({k.split("/")[0] for k in meta.get("checks", {})}) or [meta["property"]]
        if sh("git -C /repo status --porcelain")[1].strip():
            print("ERROR /repo not clean")
            sys.exit(2)
        rc, o = sh("git -C /repo apply %s" % os.path.join(d, "patch.diff"))
        if rc != 0:
            res[n] = {"repo": head, "applies": False}
            print(n, "does not apply")
            continue
        caught, runs = False, {}
        try:
            for c in checks:
                t0 = time.time()
                rc, o = sh("./check %s quick" % c, cwd=VERIF, env={"VERIF_BUDGET_S": os.environ.get("VERIF_BUDGET_S", "40")})
                cls = [l.strip() for l in o.splitlines() if l.strip().startswith("class=")]
                runs[c] = {"exit": rc, "wall_s": round(time.time() - t0), "class": cls[0].split(" ")[0][6:] if cls else ""}
                if rc == 1:
                    caught = True
                    break
        finally:
            sh("git -C /repo checkout -- .")
        res[n] = {"repo": head, "applies": True, "caught": caught, "checks": runs}
        print(n, "caught" if caught else "MISSED", runs)
        json.dump(res, open(out_path, "w"), indent=1, sort_keys=True)


if __name__ == "__main__":
    main()
