package checks

import (
	"crypto/aes"
	cryptorand "crypto/rand"
	"encoding/binary"
	"encoding/json"
	"flag"
	"fmt"
	"strings"
	"sync"
	"sync/atomic"
	"time"

	"github.com/privacybydesign/gabi"
	"github.com/privacybydesign/gabi/big"
	"github.com/privacybydesign/gabi/gabikeys"
	"github.com/privacybydesign/gabi/rangeproof"
	"pgregory.net/rapid"

	"verif/sim/kernel"
)

// Engine T-race world, shared by C07 and C20: caller threads ("tasks") sharing
// one holder wallet, one public key and the process-wide fast random generator,
// interleaved by the controlled scheduler.

var flagRaceLog = flag.String("verif.racelog", "", "GORACE log_path prefix of this process")

var raceLog *kernel.RaceLog

func theRaceLog() *kernel.RaceLog {
	if raceLog == nil && *flagRaceLog != "" {
		raceLog = kernel.OpenRaceLog(*flagRaceLog)
	}
	return raceLog
}

// tOp kinds
const (
	tPrepare                = iota // Credential.NonrevPrepareCache
	tProveNonrev                   // CreateDisclosureProof with non-revocation part
	tProvePlain                    // CreateDisclosureProof without
	tProveRange                    // with a range statement
	tVerify                        // verify an own copy of a pre-made proof under the shared public key
	tRandRead                      // read n bytes from the process-wide generator
	tRandomQR                      // common.RandomQR on the shared modulus
	tProveList                     // BuildProofList over two credentials (linked proofs)
	tIssueCommit                   // issuance commitment (ProofU) with the shared secret
	tRandStress                    // tight loop of 2000 one-block reads from the process-wide generator (free-running class)
	tGenKey                        // gabikeys.GenerateKeyPair at a toy length (free-running class: parallel key generation under the race detector)
	tVerifyUpdate                  // Update.Verify on one update object made by the issuer itself (in-process authority) and shared by all tasks
	tProveAfterFailedCommit        // disclosure builder (with non-revocation part) whose first Commit fails recoverably (incomplete keyshare commitment), then succeeds on the same builder
	tIssueRetry                    // one CredentialBuilder answering twice (issuer nonce changed after a dropped session; or a proof list first): same U, fresh randomness
	tOpKinds
)

type tOp struct {
	Kind int `json:"kind"`
	Cred int `json:"cred"`
	N    int `json:"n"` // bytes for tRandRead
}

type TSpec struct {
	Key        string    `json:"key"`
	LibSeed    uint64    `json:"lib_seed"`
	ValSeed    uint64    `json:"val_seed"`
	NCreds     int       `json:"n_creds"`
	Primed     []bool    `json:"primed"`  // per credential: cache prepared before the tasks start
	Phases     [][][]tOp `json:"phases"`  // phases separated by barriers; each phase: tasks; each task: ops
	Barrier    []int     `json:"barrier"` // per barrier (between phases): 0 nothing, 1 revoke other + update all witnesses, 2 holder restart
	Schedule   []uint16  `json:"schedule"`
	Buggify    []string  `json:"buggify"`
	Sequential bool      `json:"sequential"` // run every phase's tasks one after the other (no interleaving)
	// FreeRun: the tasks of each phase run as ordinary goroutines with real parallelism and no
	// scheduler (stress class; not replayable exactly). Interleavings between two adjacent atomic
	// operations are out of the controlled scheduler's reach; this class reaches them statistically.
	FreeRun bool `json:"free_run"`
	// entropy fault: in phase RandFailPhase the crypto/rand reads number RandFailAt .. RandFailAt+RandFailN-1 of
	// task RandFailTask fail (RandFailN 0: all later ones); RandFailAt 0: no fault
	RandFailPhase int `json:"rand_fail_phase,omitempty"`
	RandFailTask  int `json:"rand_fail_task,omitempty"`
	RandFailAt    int `json:"rand_fail_at,omitempty"`
	RandFailN     int `json:"rand_fail_n,omitempty"`
}

func drawTSpec(rt *rapid.T, kinds []int, maxTasks, maxOps, maxPhases int) TSpec {
	s := TSpec{LibSeed: rapid.Uint64().Draw(rt, "libseed"), ValSeed: rapid.Uint64().Draw(rt, "valseed")}
	s.Key = rapid.SampledFrom(kernel.KeyNames(256)).Draw(rt, "key")
	s.NCreds = rapid.IntRange(1, 3).Draw(rt, "ncreds")
	for i := 0; i < s.NCreds; i++ {
		s.Primed = append(s.Primed, rapid.Bool().Draw(rt, "primed"))
	}
	np := rapid.IntRange(1, maxPhases).Draw(rt, "nphases")
	for p := 0; p < np; p++ {
		nt := rapid.IntRange(2, maxTasks).Draw(rt, "ntasks")
		var tasks [][]tOp
		for t := 0; t < nt; t++ {
			no := rapid.IntRange(1, maxOps).Draw(rt, "nops")
			var ops []tOp
			for o := 0; o < no; o++ {
				ops = append(ops, tOp{Kind: rapid.SampledFrom(kinds).Draw(rt, "kind"), Cred: rapid.IntRange(0, s.NCreds-1).Draw(rt, "cred"), N: rapid.IntRange(1, 200).Draw(rt, "n")})
			}
			tasks = append(tasks, ops)
		}
		s.Phases = append(s.Phases, tasks)
		if p < np-1 {
			s.Barrier = append(s.Barrier, rapid.IntRange(0, 2).Draw(rt, "barrier"))
		}
	}
	ns := rapid.IntRange(0, 400).Draw(rt, "nsched")
	for i := 0; i < ns; i++ {
		// mostly "keep running", sometimes switch: long stretches without pre-emption explore more than uniform noise
		c := 0
		if rapid.IntRange(0, 3).Draw(rt, "sw") == 0 {
			c = rapid.IntRange(1, 63).Draw(rt, "to")
		}
		s.Schedule = append(s.Schedule, uint16(c))
	}
	if rapid.IntRange(0, 4).Draw(rt, "randfail") == 0 {
		s.RandFailPhase = rapid.IntRange(0, np-1).Draw(rt, "rfphase")
		s.RandFailTask = rapid.IntRange(0, maxTasks-1).Draw(rt, "rftask")
		s.RandFailAt = rapid.IntRange(1, 40).Draw(rt, "rfat")
		s.RandFailN = rapid.SampledFrom([]int{1, 1, 2, 0}).Draw(rt, "rfn")
	}
	for _, b := range []string{"nonrevConsumeBuilder:force-miss"} {
		if rapid.IntRange(0, 4).Draw(rt, "buggify") == 0 {
			s.Buggify = append(s.Buggify, b)
		}
	}
	return s
}

// tProof is one proof produced during a run.
type tProof struct {
	Phase, Task, Op int
	Cred            int
	Cred2           int // second credential of a linked list (-1 none)
	Kind            int
	Wire            []byte
	Ctx, Nonce      *big.Int
	IsList          bool
	IsIssuance      bool
	Seq             int    // n-th proof list produced by this op (an op may answer more than once)
	SameBuilder     string // non-empty: proofs with the same value come from one CredentialBuilder (same U by construction)
}

type tRead struct {
	Call, Ret int64
	N         int
	Bytes     []byte
	Task      int
}

type tResult struct {
	Blocks   [][16]byte // first blocks of stress reads
	Proofs   []tProof
	Reads    []tRead
	Errors   []string
	Switches int
	SwitchH  []string
	Sites    map[string]int
	Race     string
	Creds    []*HeldCred
	Key      *kernel.Key
	CPRNGKey [32]byte
	Panics   []string
}

// runT executes a TSpec. It is the only place where hooks are installed.
func runT(r *kernel.Run, s TSpec) *tResult {
	res := &tResult{Sites: map[string]int{}}
	kernel.SeedLibrary(r.T, s.LibSeed)
	binary.LittleEndian.PutUint64(res.CPRNGKey[:8], s.LibSeed)
	copy(res.CPRNGKey[8:], "gabi-verif-cprng")
	w := newWorld(r, s.ValSeed)
	// a fresh public key object per run: lazily filled caches inside a shared key would otherwise
	// be warm after the first run of the process and first-use races could never be seen again
	shared := kernel.GetKey(s.Key)
	pkCopy := *shared.Pk
	key := &kernel.Key{Name: shared.Name, Bits: shared.Bits, Z128: shared.Z128, Pk: &pkCopy, Sk: shared.Sk}
	res.Key = key
	pk := key.Pk
	ra := w.RA(key)
	if err := ra.PinTime(0, 946684800); err != nil {
		panic(err)
	}
	secret := newSecret()
	for i := 0; i < s.NCreds; i++ {
		// the third attribute is oversized (hashed before use) in two credentials out of three: provers and
		// verifiers then go through the hashing path concurrently
		hc := w.NewCred(key, secret, []int{2, 8, []int{2, 6, 5}[w.hr.IntN(3)]}, true)
		if s.Primed[i] {
			if err := hc.Cred.NonrevPrepareCache(); err != nil {
				panic(err)
			}
		}
		res.Creds = append(res.Creds, hc)
	}
	// a pre-made proof for verifier tasks
	premade := func() []byte {
		pd, err := res.Creds[0].Cred.CreateDisclosureProof([]int{1, 3}, nil, false, big.NewInt(77), big.NewInt(78))
		if err != nil {
			panic(err)
		}
		return mustJSON(gabi.ProofList{pd})
	}()
	// an update object as the issuer's own process holds it (made by NewUpdate, never decoded), shared by all tasks
	sharedUpd, err := ra.Update(0, ra.Head())
	if err != nil {
		panic(err)
	}
	theRaceLog().New() // discard anything reported during set-up

	var genMu sync.Mutex
	var genModuli []*big.Int // moduli of the keys generated by the tasks of this run
	sched0 := s.Schedule
	for p, tasks := range s.Phases {
		buggify := map[string]bool{}
		for _, b := range s.Buggify {
			buggify[b] = true
		}
		// each phase consumes its own slice of the schedule vector
		share := len(sched0) / len(s.Phases)
		vec := sched0[p*share : (p+1)*share]
		if s.Sequential {
			vec = nil
		}
		sc := kernel.NewSched(len(tasks), vec, s.LibSeed+uint64(p)*7919, buggify)
		if s.RandFailAt > 0 && p == s.RandFailPhase && !s.FreeRun {
			sc.FailTask, sc.FailFrom, sc.FailCount = s.RandFailTask%len(tasks), s.RandFailAt, s.RandFailN
		}
		var freeSeq atomic.Int64
		tick := func() int64 {
			if s.FreeRun {
				return freeSeq.Add(1)
			}
			return sc.Tick()
		}
		type slot struct {
			proofs []tProof
			reads  []tRead
			errs   []string
			blocks [][16]byte
		}
		slots := make([]slot, len(tasks))
		var fns []func()
		for ti, ops := range tasks {
			ti, ops := ti, ops
			fns = append(fns, func() {
				sl := &slots[ti]
				for oi, op := range ops {
					hc := res.Creds[op.Cred%len(res.Creds)]
					ctx, nonce := big.NewInt(int64(1000*p+100*ti+oi+1)), big.NewInt(int64(7000+100*ti+oi))
					rec := func(pl gabi.ProofList, err error, kind int, c2 int, isList, isIss bool) {
						if err != nil {
							sl.errs = append(sl.errs, fmt.Sprintf("p%d t%d o%d kind %d: %v", p, ti, oi, kind, err))
							return
						}
						b, merr := json.Marshal(pl)
						if merr != nil {
							sl.errs = append(sl.errs, fmt.Sprintf("p%d t%d o%d kind %d: encode: %v", p, ti, oi, kind, merr))
							return
						}
						seq := 0
						for _, q := range sl.proofs {
							if q.Phase == p && q.Task == ti && q.Op == oi {
								seq++
							}
						}
						sl.proofs = append(sl.proofs, tProof{Phase: p, Task: ti, Op: oi, Seq: seq, Cred: op.Cred % len(res.Creds), Cred2: c2, Kind: kind, Wire: b, Ctx: ctx, Nonce: nonce, IsList: isList, IsIssuance: isIss})
					}
					switch op.Kind {
					case tPrepare:
						if err := hc.Cred.NonrevPrepareCache(); err != nil {
							sl.errs = append(sl.errs, fmt.Sprintf("p%d t%d o%d prepare: %v", p, ti, oi, err))
						}
					case tProveNonrev, tProvePlain:
						pd, err := hc.Cred.CreateDisclosureProof([]int{1}, nil, op.Kind == tProveNonrev, ctx, nonce)
						rec(gabi.ProofList{pd}, err, op.Kind, -1, false, false)
					case tProveRange:
						ge, _ := rangeproof.NewStatement(rangeproof.GreaterOrEqual, big.NewInt(1))
						pd, err := hc.Cred.CreateDisclosureProof(nil, map[int][]*rangeproof.Statement{1: {ge}}, false, ctx, nonce)
						rec(gabi.ProofList{pd}, err, op.Kind, -1, false, false)
					case tProveList:
						c2 := (op.Cred + 1) % len(res.Creds)
						b1, e1 := hc.Cred.CreateDisclosureProofBuilder([]int{1}, nil, op.N%2 == 0)
						b2, e2 := res.Creds[c2].Cred.CreateDisclosureProofBuilder(nil, nil, false)
						if e1 != nil || e2 != nil {
							sl.errs = append(sl.errs, fmt.Sprintf("p%d t%d o%d builders: %v %v", p, ti, oi, e1, e2))
							continue
						}
						pl, err := gabi.ProofBuilderList{b1, b2}.BuildProofList(ctx, nonce, false)
						rec(pl, err, op.Kind, c2, true, false)
					case tIssueCommit:
						cb, err := gabi.NewCredentialBuilder(pk, ctx, secret, big.NewInt(4242), nil, nil)
						if err != nil {
							sl.errs = append(sl.errs, err.Error())
							continue
						}
						pl, err := gabi.ProofBuilderList{cb}.BuildProofList(ctx, nonce, false)
						rec(pl, err, op.Kind, -1, false, true)
					case tProveAfterFailedCommit:
						b, err := hc.Cred.CreateDisclosureProofBuilder([]int{1}, nil, true)
						if err != nil {
							sl.errs = append(sl.errs, fmt.Sprintf("p%d t%d o%d builder: %v", p, ti, oi, err))
							continue
						}
						b.SetProofPCommitment(&gabi.ProofPCommitment{}) // a keyshare server's commitment that lacks Pcommit
						if _, err := (gabi.ProofBuilderList{b}).BuildProofList(ctx, nonce, false); err == nil {
							sl.errs = append(sl.errs, "Commit succeeded on an incomplete keyshare commitment")
							continue
						}
						b.SetProofPCommitment(nil) // the holder goes on without the keyshare server
						pl, err := gabi.ProofBuilderList{b}.BuildProofList(ctx, nonce, false)
						rec(pl, err, tProveNonrev, -1, false, false)
					case tVerifyUpdate:
						if _, err := sharedUpd.Verify(pk); err != nil {
							sl.errs = append(sl.errs, "verify shared update: "+err.Error())
						}
					case tIssueRetry:
						cb, err := gabi.NewCredentialBuilder(pk, ctx, secret, big.NewInt(4242), nil, []int{1})
						if err != nil {
							sl.errs = append(sl.errs, err.Error())
							continue
						}
						tag := fmt.Sprintf("p%dt%do%d", p, ti, oi)
						mark := func() {
							if n := len(sl.proofs); n > 0 && sl.proofs[n-1].Op == oi && sl.proofs[n-1].Task == ti && sl.proofs[n-1].Phase == p {
								sl.proofs[n-1].SameBuilder = tag
							}
						}
						if op.N%2 == 0 {
							m1, err := cb.CommitToSecretAndProve(nonce)
							if err == nil {
								rec(m1.Proofs, nil, op.Kind, -1, false, true)
								mark()
							}
						} else {
							pl, err := gabi.ProofBuilderList{cb}.BuildProofList(ctx, nonce, false)
							rec(pl, err, op.Kind, -1, false, true)
							mark()
						}
						nonceB := new(big.Int).Add(nonce, big.NewInt(1))
						m2, err := cb.CommitToSecretAndProve(nonceB)
						if err != nil {
							sl.errs = append(sl.errs, err.Error())
							continue
						}
						nonce = nonceB
						rec(m2.Proofs, nil, op.Kind, -1, false, true)
						mark()
					case tVerify:
						var pl gabi.ProofList
						if err := json.Unmarshal(premade, &pl); err != nil {
							sl.errs = append(sl.errs, "decode premade: "+err.Error())
							continue
						}
						if !pl.Verify([]*gabikeys.PublicKey{pk}, big.NewInt(77), big.NewInt(78), false, nil) {
							sl.errs = append(sl.errs, fmt.Sprintf("p%d t%d o%d: valid proof rejected under concurrency", p, ti, oi))
						}
					case tRandRead:
						buf := make([]byte, op.N)
						call := tick()
						if _, err := gabi.VerifFastRandomRead(buf); err != nil {
							sl.errs = append(sl.errs, err.Error())
						}
						ret := tick()
						sl.reads = append(sl.reads, tRead{Call: call, Ret: ret, N: op.N, Bytes: buf, Task: ti})
					case tRandStress:
						var b [16]byte
						for k := 0; k < 2000; k++ {
							if _, err := gabi.VerifFastRandomRead(b[:]); err != nil {
								sl.errs = append(sl.errs, err.Error())
								break
							}
							sl.blocks = append(sl.blocks, b)
						}
					case tGenKey:
						base := gabikeys.BaseParameters{LePrime: 120, Lh: 256, Lm: 256, Ln: 128, Lstatzk: 80}
						params := &gabikeys.SystemParameters{BaseParameters: base, DerivedParameters: gabikeys.MakeDerivedParameters(base)}
						gsk, gpk, err := gabikeys.GenerateKeyPair(params, 2, 0, time.Unix(4000000000, 0))
						if err != nil {
							sl.errs = append(sl.errs, "GenerateKeyPair: "+err.Error())
						} else if why := wellFormed(gsk, gpk, 128, 2); why != "" {
							sl.errs = append(sl.errs, "concurrently generated key malformed: "+why)
						} else {
							genMu.Lock()
							for _, other := range genModuli {
								if g := new(big.Int).GCD(nil, nil, other, gpk.N); g.Cmp(big.NewInt(1)) != 0 {
									sl.errs = append(sl.errs, fmt.Sprintf("two keys generated in parallel share the prime factor %v", g))
								}
							}
							genModuli = append(genModuli, gpk.N)
							genMu.Unlock()
						}
					case tRandomQR:
						q := gabi.VerifRandomQR(pk.N)
						if q == nil || q.Sign() <= 0 || q.Cmp(pk.N) >= 0 {
							sl.errs = append(sl.errs, "RandomQR out of range")
						}
					}
				}
			})
		}
		if s.FreeRun {
			var wg sync.WaitGroup
			var emu sync.Mutex
			start := make(chan struct{})
			for _, f := range fns {
				wg.Add(1)
				go func(f func()) {
					defer wg.Done()
					defer func() {
						if e := recover(); e != nil {
							emu.Lock()
							res.Panics = append(res.Panics, fmt.Sprintf("task panicked: %v", e))
							emu.Unlock()
						}
					}()
					<-start
					f()
				}(f)
			}
			close(start)
			wg.Wait()
			// library goroutines started by this phase (safe prime workers winding down) must be gone
			// before anything else happens: later runs install hooks, which those goroutines read
			for wait := 0; wait < 400 && libGoroutines() > 0; wait++ {
				time.Sleep(25 * time.Millisecond)
			}
			if n := libGoroutines(); n > 0 {
				res.Errors = append(res.Errors, fmt.Sprintf("%d safe prime generator goroutines still alive 10 s after parallel key generation returned", n))
			}
			r.Probe("free-running-phases")
		} else {
			prevReader := cryptorand.Reader
			cryptorand.Reader = &kernel.SimReader{S: sc, Fallback: prevReader}
			setHooks(&hookSet{yield: sc.Yield, buggify: sc.BuggifyAt})
			sc.Run(fns)
			setHooks(nil)
			cryptorand.Reader = prevReader
		}

		for ti, sl := range slots {
			res.Proofs = append(res.Proofs, sl.proofs...)
			res.Reads = append(res.Reads, sl.reads...)
			res.Blocks = append(res.Blocks, sl.blocks...)
			for _, e := range sl.errs {
				if sc.EntropyFailures() > 0 && ti == sc.FailTask && strings.Contains(e, kernel.ErrEntropy.Error()) {
					// the entropy source failed under this task: an error from the operation is the right answer
					r.Probe("operation-failed-on-entropy-error")
					continue
				}
				res.Errors = append(res.Errors, e)
			}
		}
		if n := sc.EntropyFailures(); n > 0 {
			r.Stats().Faults["entropy-read-error"] += n
		}
		res.Switches += len(sc.Switches())
		r.Stats().Faults["preemption(context switch at a yield point)"] += len(sc.Switches())
		if h := sc.BuggifyHits(); h > 0 {
			r.Stats().Faults["buggify:forced-cache-miss"] += h
		}
		res.SwitchH = append(res.SwitchH, sc.SwitchHash())
		for k, v := range sc.YieldSites() {
			res.Sites[k] += v
		}
		res.Panics = append(res.Panics, sc.Panics()...)
		r.Logf("phase %d: tasks=%d switches=%d hash=%s proofs=%d errors=%d", p, len(tasks), len(sc.Switches()), sc.SwitchHash(), len(res.Proofs), len(res.Errors))

		// barrier between phases (single-threaded): the holder never updates witnesses while proving
		if p < len(s.Barrier) {
			switch s.Barrier[p] {
			case 1:
				o := w.NewCred(key, newSecret(), []int{2}, true)
				if err := ra.Revoke(o.Led.Witness); err != nil {
					panic(err)
				}
				if err := ra.PinTime(ra.Head(), 946684800+int64(ra.Head())*3600); err != nil {
					panic(err)
				}
				u, err := ra.Update(0, ra.Head())
				if err != nil {
					panic(err)
				}
				for _, hc := range res.Creds {
					if err := hc.Cred.NonRevocationWitness.Update(pk, u); err != nil {
						res.Errors = append(res.Errors, "barrier update: "+err.Error())
					}
				}
				r.Fault("witness-update-at-barrier")
			case 2:
				for _, hc := range res.Creds {
					nc := &gabi.Credential{}
					mustUnmarshal(mustJSON(hc.Cred), nc)
					nc.Pk = pk
					if err := nc.NonRevocationWitness.Verify(pk); err != nil {
						panic(err)
					}
					hc.Cred = nc
				}
				r.Fault("crash-restart")
			}
		}
	}
	res.Race = theRaceLog().New()
	for k, v := range res.Sites {
		r.Stats().Probes["site:"+k] += v
	}
	return res
}

// keystreamOffset finds the block offset at which the generator produced b (AES-CTR keystream the
// harness computes itself from the key it installed), or -1.
func keystreamOffset(key [32]byte, b []byte, maxBlocks int) int {
	c, err := aes.NewCipher(key[:])
	if err != nil {
		panic(err)
	}
	nb := (len(b) + 15) / 16
	var pt, ct [16]byte
	for off := 0; off < maxBlocks; off++ {
		ok := true
		for j := 0; j < nb && ok; j++ {
			binary.LittleEndian.PutUint64(pt[:], uint64(off+j))
			c.Encrypt(ct[:], pt[:])
			end := (j + 1) * 16
			if end > len(b) {
				end = len(b)
			}
			for k := j * 16; k < end; k++ {
				if b[k] != ct[k-j*16] {
					ok = false
					break
				}
			}
		}
		if ok {
			return off
		}
	}
	return -1
}

// keystreamOffsetAt reports whether b is a prefix of the keystream starting at block off.
func keystreamOffsetAt(key [32]byte, b []byte, off int) bool {
	c, err := aes.NewCipher(key[:])
	if err != nil {
		panic(err)
	}
	var pt, ct [16]byte
	for j := 0; j*16 < len(b); j++ {
		binary.LittleEndian.PutUint64(pt[:], uint64(off+j))
		c.Encrypt(ct[:], pt[:])
		for k := j * 16; k < len(b) && k < (j+1)*16; k++ {
			if b[k] != ct[k-j*16] {
				return false
			}
		}
	}
	return true
}
