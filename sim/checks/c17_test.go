package checks

import (
	"encoding/json"
	"fmt"
	mbig "math/big"
	"sort"
	"strings"
	"testing"
	"time"

	"github.com/privacybydesign/gabi/big"
	"github.com/privacybydesign/gabi/keyproof"
	"github.com/privacybydesign/gabi/safeprime"
	"pgregory.net/rapid"

	"verif/sim/kernel"
)

// C17 — key-correctness proofs accept good keys and reject bad ones.
//
// World: an issuer publishes a key-correctness proof for a freshly generated toy
// modulus (48..96-bit safe primes, 1..4 bases); the artefact (10-25 MB of JSON)
// crosses the wire to a key auditor. Faults: path-addressed alteration of
// sampled leaves stratified by leaf kind, delivery against another modulus or
// base list, and provers run through the public API on inputs that do not make a
// good key. The prover's worker pool runs free (16 workers): the subject is the
// auditor's verdict on a stored artefact, not the prover's schedule, and the
// replay file stores the artefact (DESIGN section 4).

type C17Spec struct {
	LibSeed   uint64   `json:"lib_seed"`
	ValSeed   uint64   `json:"val_seed"`
	PrimeBits int      `json:"prime_bits"`
	NBases    int      `json:"n_bases"`
	Samples   int      `json:"samples"` // tampered leaves per run
	Bad       int      `json:"bad"`     // 0 good key; 2 p == q; 4 safe primes failing the residue conditions; 5 good modulus, non-residue base, Byzantine prover with a degenerate commitment (composite p', q' make the prover itself loop forever and are not run)
	OnlyFault []string `json:"only_fault,omitempty"`
}

func drawC17(rt *rapid.T) C17Spec {
	s := C17Spec{LibSeed: rapid.Uint64().Draw(rt, "libseed"), ValSeed: rapid.Uint64().Draw(rt, "valseed")}
	s.PrimeBits = rapid.SampledFrom([]int{48, 56, 64, 64, 72, 96}).Draw(rt, "primebits")
	s.NBases = rapid.IntRange(1, 4).Draw(rt, "nbases")
	s.Samples = rapid.IntRange(4, 10).Draw(rt, "samples")
	if thorough() {
		s.Samples = rapid.IntRange(10, 40).Draw(rt, "samples_t")
	}
	if rapid.IntRange(0, 4).Draw(rt, "bad") == 0 {
		s.Bad = rapid.SampledFrom([]int{2, 4, 5, 5}).Draw(rt, "badkind")
	}
	return s
}

func genSafePrime(bits int) *big.Int {
	p, err := safeprime.Generate(bits, nil)
	if err != nil {
		panic(err)
	}
	return p
}

// leafKind classifies a leaf of the proof tree by the names on its path (indices dropped).
func leafKind(p kernel.Path) string {
	var parts []string
	for _, s := range p {
		if len(s) > 0 && (s[0] < '0' || s[0] > '9') {
			parts = append(parts, s)
		}
	}
	return stripDigits(strings.Join(parts, "."))
}

func execC17(r *kernel.Run, s C17Spec) {
	kernel.SeedLibrary(r.T, s.LibSeed)
	hr := hrand(s.ValSeed, 17)
	var p, q *big.Int
	for {
		p, q = genSafePrime(s.PrimeBits), genSafePrime(s.PrimeBits)
		if keyproof.CanProve(new(big.Int).Rsh(p, 1), new(big.Int).Rsh(q, 1)) {
			break
		}
	}
	pp, qp := new(big.Int).Rsh(p, 1), new(big.Int).Rsh(q, 1)
	n := new(big.Int).Mul(p, q)
	var bases []*big.Int
	for i := 0; i < s.NBases; i++ {
		x := randBits(hr, 2*s.PrimeBits-4)
		bases = append(bases, x.Mul(x, x).Mod(x, n))
	}
	st := keyproof.NewValidKeyProofStructure(n, bases)
	r.Logf("primes=%d bases=%d bad=%d", s.PrimeBits, s.NBases, s.Bad)
	r.Distinct(fmt.Sprintf("bits=%d bases=%d bad=%d", s.PrimeBits, s.NBases, s.Bad))

	verify := func(b []byte, str *keyproof.ValidKeyProofStructure) (ok bool, why string) {
		var pr keyproof.ValidKeyProof
		if p := guard(func() {
			if err := json.Unmarshal(b, &pr); err != nil {
				why = "decode: " + err.Error()
				return
			}
			ok = str.VerifyProof(pr)
		}); p != "" {
			return false, "panic: " + p
		}
		return
	}

	if s.Bad == 5 {
		// Byzantine prover (inside the package, build tag verif) for a good modulus and a base list that
		// contains a quadratic non-residue: it knows no root of that base and commits to n with the
		// degenerate Pedersen commitment 0
		r.Fault("bad-key-prover")
		bad := big.NewInt(2)
		for mbig.Jacobi(bad.Go(), n.Go()) != -1 {
			bad.Add(bad, big.NewInt(1))
		}
		bb := append([]*big.Int{}, bases...)
		bb[hr.IntN(len(bb))] = bad
		bst := keyproof.NewValidKeyProofStructure(n, bb)
		var wire []byte
		r.Eval(1)
		mult := []int{0, 1, 2}[hr.IntN(3)]
		if pm := guard(func() {
			keyproof.VerifDegenerateMultiple = mult
			pr := keyproof.VerifBuildProofDegenerateCommitment(&bst, pp, qp)
			wire, _ = json.Marshal(pr)
		}); pm != "" || wire == nil {
			r.Probe("bad-key-prover-refused")
			return
		}
		vst := keyproof.NewValidKeyProofStructure(n, bb)
		if ok, _ := verify(wire, &vst); ok {
			r.Violate("C17:bad-key-accepted", map[string]any{"bad": s.Bad, "multiple": mult}, "a key proof verifies for a base list containing %v, which has Jacobi symbol -1 modulo n (no square): the proof carries the degenerate Pedersen commitment %d * group prime", bad, mult)
		} else {
			r.Probe("bad-key-proof-rejected")
		}
		return
	}
	if s.Bad != 0 {
		// provers on inputs that are not a good key: whatever they emit must be rejected
		r.Fault("bad-key-prover")
		bp, bq := new(big.Int).Set(pp), new(big.Int).Set(qp)
		switch s.Bad {
		case 1: // p' composite (p = 2p'+1 then is no safe prime)
			bp = new(big.Int).Mul(genSafePrime(s.PrimeBits/2), genSafePrime(s.PrimeBits/2))
		case 2:
			bq = new(big.Int).Set(bp)
		case 3: // third factor folded into q'
			bq = new(big.Int).Mul(bq, big.NewInt(3))
		case 4: // a safe prime pair that fails the residue conditions
			for keyproof.CanProve(bp, bq) {
				bq = new(big.Int).Rsh(genSafePrime(s.PrimeBits), 1)
			}
		}
		bP := new(big.Int).Add(new(big.Int).Lsh(bp, 1), big.NewInt(1))
		bQ := new(big.Int).Add(new(big.Int).Lsh(bq, 1), big.NewInt(1))
		bn := new(big.Int).Mul(bP, bQ)
		var bb []*big.Int
		for range bases {
			x := randBits(hr, 2*s.PrimeBits-4)
			bb = append(bb, x.Mul(x, x).Mod(x, bn))
		}
		bst := keyproof.NewValidKeyProofStructure(bn, bb)
		var wire []byte
		r.Eval(1)
		if pm := guard(func() {
			pr := bst.BuildProof(bp, bq)
			wire, _ = json.Marshal(pr)
		}); pm != "" {
			r.Probe("bad-key-prover-refused")
			return
		}
		if wire == nil {
			return
		}
		if ok, _ := verify(wire, &bst); ok {
			r.Violate("C17:bad-key-accepted", map[string]any{"bad": s.Bad}, "proof for a bad key (kind %d) built through the public API verifies", s.Bad)
		} else {
			r.Probe("bad-key-proof-rejected")
		}
		return
	}

	t0 := time.Now()
	proof := st.BuildProof(pp, qp)
	buildS := time.Since(t0).Seconds()
	r.Eval(1)
	if !st.VerifyProof(proof) {
		r.Violate("C17:good-key-rejected", map[string]any{"stage": "in-memory"}, "proof for a good key (%d-bit primes, %d bases) rejected", s.PrimeBits, s.NBases)
		return
	}
	wire, err := json.Marshal(proof)
	if err != nil {
		r.Violate("C17:proof-not-serialisable", nil, "%v", err)
		return
	}
	r.Eval(1)
	if ok, why := verify(wire, &st); !ok {
		r.Violate("C17:good-key-rejected", map[string]any{"stage": "after-round-trip"}, "proof rejected after JSON round trip (%s)", why)
		return
	}
	r.Stats().Probes["artefact-MB"] += len(wire) >> 20
	r.Note(fmt.Sprintf("build %.1fs, artefact %d bytes", buildS, len(wire)))

	deliver := func(id, kind string, b []byte, str *keyproof.ValidKeyProofStructure) {
		if !wanted(s.OnlyFault, id) {
			return
		}
		r.Eval(1)
		r.Fault(kind)
		one := s
		one.OnlyFault = []string{id}
		markPending("C17", one, id)
		ok, why := verify(b, str)
		clearPending()
		if strings.HasPrefix(why, "panic") {
			r.Violate("C17:verifier-panics", map[string]any{"fault": id}, "%s: %s", id, why)
			return
		}
		if ok {
			r.Violate("C17:altered-proof-accepted:"+kind, map[string]any{"fault": id, "leaf_kind": leafKindOfID(id)}, "%s: proof still verifies", id)
		}
	}
	// wrong modulus / base list
	{
		n2 := new(big.Int).Add(n, big.NewInt(2))
		st2 := keyproof.NewValidKeyProofStructure(n2, bases)
		deliver("other-modulus", "wrong-key-delivery", wire, &st2)
		b2 := append([]*big.Int{}, bases...)
		b2[0] = new(big.Int).Mod(new(big.Int).Mul(b2[0], big.NewInt(4)), n)
		st3 := keyproof.NewValidKeyProofStructure(n, b2)
		deliver("other-base", "wrong-key-delivery", wire, &st3)
		if len(bases) > 1 {
			st4 := keyproof.NewValidKeyProofStructure(n, bases[:len(bases)-1])
			deliver("fewer-bases", "wrong-key-delivery", wire, &st4)
		}
		// a base list with a base far larger than the modulus (key documents do not bound base sizes)
		b5 := append([]*big.Int{}, bases...)
		b5[len(b5)-1] = new(big.Int).Lsh(b5[len(b5)-1], uint(n.BitLen())+700)
		var st5 keyproof.ValidKeyProofStructure
		if pm := guard(func() { st5 = keyproof.NewValidKeyProofStructure(n, b5) }); pm == "" {
			deliver("oversized-base", "wrong-key-delivery", wire, &st5)
		}
	}
	// tampered leaves, stratified by leaf kind
	tree := kernel.MustDecode(wire)
	byKind := map[string][]kernel.Path{}
	var kinds []string
	kernel.Walk(tree, func(p kernel.Path, node any) {
		switch node.(type) {
		case string, json.Number, bool:
			k := leafKind(p)
			if _, ok := byKind[k]; !ok {
				kinds = append(kinds, k)
			}
			byKind[k] = append(byKind[k], p)
		}
	})
	r.Stats().Probes["leaf-kinds"] = max(r.Stats().Probes["leaf-kinds"], len(kinds))
	r.Stats().Probes["leaves"] += func() int {
		t := 0
		for _, v := range byKind {
			t += len(v)
		}
		return t
	}()
	// structural faults at array boundaries: a leaf inside the LAST (or first) element of an array is
	// nulled or deleted — per-element structure checks that stop one short are only visible there
	var boundary []kernel.Path
	kernel.Walk(tree, func(p kernel.Path, node any) {
		arr, ok := node.([]any)
		if !ok || len(arr) < 2 {
			return
		}
		for _, idx := range []int{len(arr) - 1, 0} {
			ep := append(append(kernel.Path{}, p...), fmt.Sprint(idx))
			if m, ok := arr[idx].(map[string]any); ok {
				for name := range m {
					boundary = append(boundary, append(append(kernel.Path{}, ep...), name))
				}
			} else {
				boundary = append(boundary, ep)
			}
		}
	})
	sort.Slice(boundary, func(i, j int) bool { return boundary[i].String() < boundary[j].String() })
	r.Stats().Probes["array-boundary-nodes"] += len(boundary)
	bKinds := map[string][]kernel.Path{}
	var bNames []string
	for _, p := range boundary {
		k := leafKind(p)
		if _, ok := bKinds[k]; !ok {
			bNames = append(bNames, k)
		}
		bKinds[k] = append(bKinds[k], p)
	}
	r.Stats().Probes["array-boundary-kinds"] = max(r.Stats().Probes["array-boundary-kinds"], len(bNames))
	nStruct := 3 * s.Samples // structurally broken proofs are refused (or crash) early: cheap
	for k := 0; k < nStruct && len(boundary) > 0; k++ {
		ps := bKinds[bNames[hr.IntN(len(bNames))]]
		p := ps[hr.IntN(len(ps))]
		t2 := kernel.Clone(tree)
		var id string
		if hr.IntN(2) == 0 {
			t2 = kernel.Set(t2, p, nil)
			id = "struct:null@" + p.String()
		} else {
			t2 = kernel.Delete(t2, p)
			id = "struct:delete@" + p.String()
		}
		r.Probe("tampered-boundary:" + leafKind(p))
		r.Distinct(fmt.Sprintf("bits=%d boundary %s", s.PrimeBits, leafKind(p)))
		deliver(id, "tamper-structure", kernel.Encode(t2), &st)
	}
	// structural faults on objects: an unexpected extra member (empty list, list of nulls, null, or a copy of
	// a sibling). Members the decoder ignores change nothing, so only a crash counts here; in objects that
	// decode into Go maps the extra member reaches the verifier's loops.
	var objs []kernel.Path
	kernel.Walk(tree, func(p kernel.Path, node any) {
		if m, ok := node.(map[string]any); ok && len(m) > 0 {
			objs = append(objs, append(kernel.Path{}, p...))
		}
	})
	sort.Slice(objs, func(i, j int) bool { return objs[i].String() < objs[j].String() })
	oKinds := map[string][]kernel.Path{}
	var oNames []string
	for _, p := range objs {
		k := leafKind(p)
		if _, ok := oKinds[k]; !ok {
			oNames = append(oNames, k)
		}
		oKinds[k] = append(oKinds[k], p)
	}
	r.Stats().Probes["object-kinds"] = max(r.Stats().Probes["object-kinds"], len(oNames))
	for k := 0; k < s.Samples && len(objs) > 0; k++ {
		ps := oKinds[oNames[hr.IntN(len(oNames))]]
		p := ps[hr.IntN(len(ps))]
		node, _ := kernel.Get(tree, p)
		m := node.(map[string]any)
		var names []string
		for name := range m {
			names = append(names, name)
		}
		sort.Strings(names)
		var val any
		alt := hr.IntN(4)
		switch alt {
		case 0:
			val = []any{}
		case 1:
			val = []any{nil, nil}
		case 2:
			val = nil
		default:
			val = kernel.Clone(m[names[hr.IntN(len(names))]])
		}
		extra := []string{"zz_extra", "", names[0] + "_"}[hr.IntN(3)]
		t2 := kernel.Clone(tree)
		t2 = kernel.Set(t2, append(append(kernel.Path{}, p...), extra), val)
		id := fmt.Sprintf("struct:extra%d%q@%s", alt, extra, p.String())
		if !wanted(s.OnlyFault, id) {
			continue
		}
		r.Probe("extra-member:" + leafKind(p))
		r.Eval(1)
		r.Fault("tamper-structure")
		one := s
		one.OnlyFault = []string{id}
		markPending("C17", one, id)
		_, why := verify(kernel.Encode(t2), &st)
		clearPending()
		if strings.HasPrefix(why, "panic") {
			r.Violate("C17:verifier-panics", map[string]any{"fault": id}, "%s: %s", id, why)
			return
		}
	}
	// tails of response lists: every element from a random position onwards is altered at once. One
	// delivery covers all later positions of the list: a verifier that stops looking after the first
	// few rounds of a many-round component accepts it.
	var lists []kernel.Path
	kernel.Walk(tree, func(p kernel.Path, node any) {
		arr, ok := node.([]any)
		if !ok || len(arr) < 2 {
			return
		}
		for _, e := range arr {
			if _, isStr := e.(string); !isStr {
				return
			}
		}
		lists = append(lists, append(kernel.Path{}, p...))
	})
	sort.Slice(lists, func(i, j int) bool { return lists[i].String() < lists[j].String() })
	lKinds := map[string][]kernel.Path{}
	var lNames []string
	for _, p := range lists {
		k := leafKind(p)
		if _, ok := lKinds[k]; !ok {
			lNames = append(lNames, k)
		}
		lKinds[k] = append(lKinds[k], p)
	}
	r.Stats().Probes["list-kinds"] = max(r.Stats().Probes["list-kinds"], len(lNames))
	// coarse kinds: the members of a Results object (one per secret of the component, with long generated
	// names) count as one kind, so that the few top-level response lists are not drowned out
	cKinds := map[string][]kernel.Path{}
	var cNames []string
	for _, p := range lists {
		k := coarseKind(p)
		if _, ok := cKinds[k]; !ok {
			cNames = append(cNames, k)
		}
		cKinds[k] = append(cKinds[k], p)
	}
	r.Stats().Probes["coarse-list-kinds"] = max(r.Stats().Probes["coarse-list-kinds"], len(cNames))
	for k := 0; k < 2*s.Samples && len(lNames) > 0; k++ {
		ps := lKinds[lNames[hr.IntN(len(lNames))]]
		if k%2 == 1 {
			ps = cKinds[cNames[hr.IntN(len(cNames))]]
		}
		p := ps[hr.IntN(len(ps))]
		node, _ := kernel.Get(tree, p)
		arr := node.([]any)
		cut := 1 + hr.IntN(len(arr)-1)
		na := append([]any{}, arr...)
		changed := false
		for i := cut; i < len(na); i++ {
			if v, ok := kernel.B64Int(na[i].(string)); ok {
				na[i] = kernel.IntB64(v.Add(v, mbig.NewInt(1)))
				changed = true
			}
		}
		if !changed {
			continue
		}
		t2 := kernel.Set(kernel.Clone(tree), p, na)
		r.Probe("tampered-list-tail:" + coarseKind(p))
		r.Distinct(fmt.Sprintf("bits=%d list-tail %s", s.PrimeBits, leafKind(p)))
		deliver(fmt.Sprintf("tail:+1from%d@%s", cut, p.String()), "tamper-field", kernel.Encode(t2), &st)
	}
	for k := 0; k < s.Samples; k++ {
		kind := kinds[hr.IntN(len(kinds))]
		ps := byKind[kind]
		p := ps[hr.IntN(len(ps))]
		node, _ := kernel.Get(tree, p)
		t2 := kernel.Clone(tree)
		var id string
		switch x := node.(type) {
		case string:
			v, ok := kernel.B64Int(x)
			if !ok {
				continue
			}
			alt := hr.IntN(3)
			switch alt {
			case 0:
				v.Add(v, mbig.NewInt(1))
			case 1:
				bit := hr.IntN(v.BitLen() + 1)
				v.SetBit(v, bit, v.Bit(bit)^1)
			default:
				v.Lsh(v, 1)
			}
			t2 = kernel.Set(t2, p, kernel.IntB64(v))
			id = fmt.Sprintf("leaf:%d@%s", alt, p.String())
		case json.Number:
			nn, _ := x.Int64()
			t2 = kernel.Set(t2, p, json.Number(fmt.Sprint(nn+1)))
			id = "leaf:num+1@" + p.String()
		case bool:
			t2 = kernel.Set(t2, p, !x)
			id = "leaf:flip@" + p.String()
		}
		r.Probe("tampered-kind:" + kind)
		r.Distinct(fmt.Sprintf("bits=%d leaf-kind %s", s.PrimeBits, kind))
		deliver(id, "tamper-field", kernel.Encode(t2), &st)
	}
	// every good-key run ends with the Byzantine prover on a small modulus of its own (cheap at 48-bit primes):
	// a base of Jacobi symbol -1, commitment to n = 0, P or 2P
	if wanted(s.OnlyFault, "byzantine:degenerate-commitment") {
		var sp, sq *big.Int
		for {
			sp, sq = genSafePrime(48), genSafePrime(48)
			if sp.Cmp(sq) != 0 && keyproof.CanProve(new(big.Int).Rsh(sp, 1), new(big.Int).Rsh(sq, 1)) {
				break
			}
		}
		sn := new(big.Int).Mul(sp, sq)
		bad := big.NewInt(2)
		for mbig.Jacobi(bad.Go(), sn.Go()) != -1 {
			bad.Add(bad, big.NewInt(1))
		}
		bb := []*big.Int{big.NewInt(49), bad}
		mult := []int{0, 1, 2}[hr.IntN(3)]
		bst := keyproof.NewValidKeyProofStructure(sn, bb)
		var fw []byte
		r.Fault("bad-key-prover")
		r.Eval(1)
		if pm := guard(func() {
			keyproof.VerifDegenerateMultiple = mult
			pr := keyproof.VerifBuildProofDegenerateCommitment(&bst, new(big.Int).Rsh(sp, 1), new(big.Int).Rsh(sq, 1))
			fw, _ = json.Marshal(pr)
		}); pm != "" || fw == nil {
			r.Probe("bad-key-prover-refused")
		} else {
			vst := keyproof.NewValidKeyProofStructure(sn, bb)
			if ok, _ := verify(fw, &vst); ok {
				r.Violate("C17:bad-key-accepted", map[string]any{"bad": 5, "multiple": mult, "fault": "byzantine:degenerate-commitment"}, "a key proof verifies for a base list containing %v, which has Jacobi symbol -1 modulo n (no square): the proof carries the degenerate Pedersen commitment %d * group prime", bad, mult)
			} else {
				r.Probe("bad-key-proof-rejected")
			}
		}
	}
	r.Sample(map[string]any{"spec": s, "artefact_bytes": len(wire), "leaf_kinds": len(kinds)})
}

// coarseKind is leafKind cut off at the first Results object.
func coarseKind(p kernel.Path) string {
	for i, s := range p {
		if s == "Results" {
			return leafKind(p[:i+1])
		}
	}
	return leafKind(p)
}

func leafKindOfID(id string) string {
	if i := indexByte(id, '@'); i >= 0 {
		return leafKind(kernel.Path(strings.Split(strings.TrimPrefix(id[i+1:], "/"), "/")))
	}
	return ""
}

func TestC17(t *testing.T) {
	RunProp(t, Prop[C17Spec]{ID: "C17", Draw: drawC17, Exec: execC17,
		Minimise: func(s C17Spec, v kernel.Violation) C17Spec {
			if f, ok := v.Details["fault"].(string); ok {
				s.OnlyFault = []string{f}
			}
			return s
		}})
}
