package checks

import (
	"encoding/json"
	"errors"
	"fmt"
	mrand "math/rand/v2"
	"sync"
	"testing"

	"github.com/privacybydesign/gabi"
	"github.com/privacybydesign/gabi/big"
	"github.com/privacybydesign/gabi/gabikeys"
	"github.com/privacybydesign/gabi/rangeproof"
	"pgregory.net/rapid"

	"verif/sim/kernel"
)

// C12 — range proofs never establish a false inequality (fault enumeration on the delivery)
// C13 — every true supported inequality is provable (fault-free class of the same world)
//
// World: holder with credentials whose hidden attributes lie on a small integer
// box or are random 256-bit values; the verifier asks for 1..3 inequalities on
// 1..2 hidden attributes. C13 runs honest sessions only and demands: proof
// created, accepted, and reported as proving the requested statement (also
// after a holder restart). C12 asks for false statements at the boundary, then
// corrupts the delivery (every leaf of every range proof, descriptor edge
// values, range proofs moved/duplicated to other indices and credentials) and
// judges every accepted proof by integer semantics on the ledger's value.

type rpStmt struct {
	Attr   int    `json:"attr"` // 1-based attribute index
	Sign   int    `json:"sign"` // +1: factor*m >= bound, -1: factor*m <= bound
	Factor uint   `json:"factor"`
	Delta  string `json:"delta"`                 // sign*(factor*m - bound), decimal; negative => false statement
	Three  bool   `json:"three"`                 // three-squares table splitter
	Small  bool   `json:"small_table,omitempty"` // with Three: the table of limit 1000 (length not a power of 4) instead of 4095
}

type C12Spec struct {
	Key       string   `json:"key"`
	LibSeed   uint64   `json:"lib_seed"`
	ValSeed   uint64   `json:"val_seed"`
	Values    []string `json:"values"` // attribute values (decimal)
	Mask      int      `json:"mask"`   // disclosed attributes (statement attributes are forced hidden)
	Stmts     []rpStmt `json:"stmts"`
	IsSig     bool     `json:"is_sig"`
	Restart   bool     `json:"restart"`
	OnlyFault []string `json:"only_fault,omitempty"`
}

const tableLimit = 4095

var (
	tableOnce sync.Once
	table     *rangeproof.SquaresTable
)

const smallTableLimit = 1000

var smallTable *rangeproof.SquaresTable

func squaresTable(small bool) *rangeproof.SquaresTable {
	tableOnce.Do(func() {
		table = rangeproof.GenerateSquaresTable(tableLimit)
		smallTable = rangeproof.GenerateSquaresTable(smallTableLimit)
	})
	if small {
		return smallTable
	}
	return table
}

func drawRangeSpec(rt *rapid.T, allowFalse bool) C12Spec {
	s := C12Spec{LibSeed: rapid.Uint64().Draw(rt, "libseed"), ValSeed: rapid.Uint64().Draw(rt, "valseed")}
	s.Key = drawKeyName(rt, "key")
	if wide := kernel.KeyNamesWide(map[bool]int{false: 1024, true: 0}[thorough()]); len(wide) > 0 && rapid.IntRange(0, 9).Draw(rt, "widekey") == 0 {
		// parameters whose message length differs from the hash length (Lm = 384 or 512, Lh = 256)
		s.Key = rapid.SampledFrom(wide).Draw(rt, "wide")
	}
	lm := int(kernel.GetKey(s.Key).Pk.Params.Lm)
	n := rapid.IntRange(1, 4).Draw(rt, "nattrs")
	for i := 0; i < n; i++ {
		var v *big.Int
		switch rapid.IntRange(0, 3).Draw(rt, "vclass") {
		case 0:
			v = big.NewInt(int64(rapid.IntRange(0, 128).Draw(rt, "small")))
		case 1:
			v = big.NewInt(int64(rapid.IntRange(0, 1<<20).Draw(rt, "medium")))
		case 2:
			v = randBits(hrand(rapid.Uint64().Draw(rt, "vs"), 3), rapid.IntRange(1, lm-1).Draw(rt, "vbits"))
		default:
			v = new(big.Int).Sub(pow2(uint(lm)), big.NewInt(int64(rapid.IntRange(1, 3).Draw(rt, "top"))))
		}
		s.Values = append(s.Values, v.String())
	}
	s.Mask = rapid.IntRange(0, (1<<n)-1).Draw(rt, "mask")
	ns := rapid.IntRange(1, 3).Draw(rt, "nstmts")
	a1 := rapid.IntRange(1, n).Draw(rt, "attr1")
	a2 := rapid.IntRange(1, n).Draw(rt, "attr2")
	for i := 0; i < ns; i++ {
		st := rpStmt{Attr: a1, Sign: rapid.SampledFrom([]int{1, -1}).Draw(rt, "sign"), Factor: 1}
		if i == 2 {
			st.Attr = a2
		}
		st.Three = rapid.IntRange(0, 2).Draw(rt, "three") == 0
		if !st.Three {
			st.Factor = uint(rapid.IntRange(1, 8).Draw(rt, "factor"))
		}
		var d *big.Int
		switch rapid.IntRange(0, 4).Draw(rt, "dclass") {
		case 0:
			d = big.NewInt(0)
		case 1:
			d = big.NewInt(int64(rapid.IntRange(0, 40).Draw(rt, "dsmall")))
		case 2:
			d = big.NewInt(int64(rapid.IntRange(0, tableLimit).Draw(rt, "dtable")))
		case 3:
			d = big.NewInt(int64(rapid.SampledFrom([]int{tableLimit, tableLimit - 1, tableLimit - 2, tableLimit / 4, tableLimit/4 + 1, 1, 2, 3}).Draw(rt, "dedge")))
		default:
			// up to the documented limit: differences below 2^256 (the top bit lengths 254..256 twice as often)
			d = randBits(hrand(rapid.Uint64().Draw(rt, "ds"), 4), rapid.SampledFrom([]int{0, 0, 254, 255, 256, 256}).Draw(rt, "dtop")+0)
			if d.Sign() == 0 {
				d = randBits(hrand(rapid.Uint64().Draw(rt, "ds2"), 4), rapid.IntRange(1, 256).Draw(rt, "dbits"))
			}
		}
		if st.Three {
			st.Small = rapid.IntRange(0, 2).Draw(rt, "smalltable") == 0
			lim := int64(tableLimit)
			if st.Small {
				lim = smallTableLimit
			}
			if d.Cmp(big.NewInt(lim)) > 0 {
				// the table holds entries "up-to and including limit": that is its domain
				d = new(big.Int).Mod(d, big.NewInt(lim+1))
			}
		}
		if allowFalse && rapid.IntRange(0, 2).Draw(rt, "false") == 0 {
			d = big.NewInt(int64(-rapid.IntRange(1, 2).Draw(rt, "fdelta")))
		}
		st.Delta = d.String()
		s.Stmts = append(s.Stmts, st)
	}
	s.IsSig = rapid.Bool().Draw(rt, "issig")
	s.Restart = rapid.Bool().Draw(rt, "restart")
	return s
}

// stmtBound computes bound = factor*m - sign*delta.
func stmtBound(st rpStmt, m *big.Int) *big.Int {
	d, _ := new(big.Int).SetString(st.Delta, 10)
	b := new(big.Int).Mul(m, big.NewInt(int64(st.Factor)))
	if st.Sign == 1 {
		return b.Sub(b, d)
	}
	return b.Add(b, d)
}

// holds is the integer semantics of a statement.
func holds(sign int, factor *big.Int, bound, m *big.Int) bool {
	v := new(big.Int).Mul(factor, m)
	v.Sub(v, bound)
	if sign == -1 {
		v.Neg(v)
	}
	return v.Sign() >= 0
}

type rangeWorld struct {
	key       *kernel.Key
	hc        *HeldCred
	ms        []*big.Int
	stmts     map[int][]*rangeproof.Statement
	flat      []*rangeproof.Statement // in spec order
	flatIdx   []int
	anyFalse  bool
	usable    bool
	sess      Session
	disclosed []int
}

func buildRangeWorld(r *kernel.Run, s C12Spec) *rangeWorld {
	kernel.SeedLibrary(r.T, s.LibSeed)
	w := newWorld(r, s.ValSeed)
	rw := &rangeWorld{key: kernel.GetKey(s.Key), stmts: map[int][]*rangeproof.Statement{}, usable: true}
	var attrs []*big.Int
	for _, v := range s.Values {
		x, _ := new(big.Int).SetString(v, 10)
		attrs = append(attrs, x)
		if rw.key.Wide && uint(x.BitLen()) > rw.key.Pk.Params.Lh {
			r.Probe("attribute-longer-than-Lh-within-Lm")
		}
	}
	if rw.key.Wide {
		r.Probe("parameters-with-Lm-not-Lh")
	}
	c, l := signCredential(rw.key, newSecret(), attrs)
	rw.hc = &HeldCred{c, l}
	rw.ms = l.Ms
	hiddenForced := map[int]bool{}
	for _, st := range s.Stmts {
		m := rw.ms[st.Attr]
		bound := stmtBound(st, m)
		if bound.Sign() < 0 {
			// bounds travel as non-negative integers; a negative bound is outside the supported domain
			rw.usable = false
			return rw
		}
		d, _ := new(big.Int).SetString(st.Delta, 10)
		if d.Sign() < 0 {
			rw.anyFalse = true
		}
		var sp rangeproof.SquareSplitter
		if st.Three {
			sp = squaresTable(st.Small)
		}
		stm := &rangeproof.Statement{Sign: st.Sign, Factor: st.Factor, Bound: bound, Splitter: sp}
		rw.stmts[st.Attr] = append(rw.stmts[st.Attr], stm)
		rw.flat = append(rw.flat, stm)
		rw.flatIdx = append(rw.flatIdx, st.Attr)
		hiddenForced[st.Attr] = true
	}
	for _, i := range maskToIndices(s.Mask, len(attrs)) {
		if !hiddenForced[i] {
			rw.disclosed = append(rw.disclosed, i)
		}
	}
	rw.sess = Session{Context: randBits(w.hr, 200), Nonce: randBits(w.hr, 80), IsSig: s.IsSig, Keys: []*gabikeys.PublicKey{rw.key.Pk}}
	return rw
}

func (rw *rangeWorld) prove() (gabi.ProofList, error) {
	b, err := rw.hc.Cred.CreateDisclosureProofBuilder(rw.disclosed, rw.stmts, false)
	if err != nil {
		return nil, err
	}
	return gabi.ProofBuilderList{b}.BuildProofList(rw.sess.Context, rw.sess.Nonce, rw.sess.IsSig)
}

// three-squares statements "m <= bound" at equality: see known_findings.jsonl (C13)
func threeSqEquality(s C12Spec) bool {
	for _, st := range s.Stmts {
		if st.Three && st.Sign == -1 && st.Delta == "0" {
			return true
		}
	}
	return false
}

// three-squares statement "m >= 0": the rescaled bound 4*0-2 is negative and cannot be encoded
func threeSqBoundZero(s C12Spec, rw *rangeWorld) bool {
	for k, st := range s.Stmts {
		if st.Three && st.Sign == 1 && rw.flat[k].Bound.Sign() == 0 {
			return true
		}
	}
	return false
}

// ---------------------------------------------------------------------------
// C13

func execC13(r *kernel.Run, s C12Spec) {
	rw := buildRangeWorld(r, s)
	if !rw.usable {
		r.Probe("negative-bound-skipped")
		return
	}
	r.Eval(1)
	det := map[string]any{"three_squares_le_at_equality": threeSqEquality(s)}
	if s.Restart {
		r.Fault("crash-restart")
		nc := &gabi.Credential{}
		mustUnmarshal(mustJSON(rw.hc.Cred), nc)
		nc.Pk = rw.key.Pk
		rw.hc.Cred = nc
	}
	var pl gabi.ProofList
	var err error
	if p, fr := guardFrame(func() { pl, err = rw.prove() }); p != "" {
		r.Violate("C13:prover-panics:"+fr, det, "proving true statements %+v panics: %s", s.Stmts, p)
		return
	}
	r.Logf("key=%s stmts=%d err=%v", s.Key, len(s.Stmts), err != nil)
	for _, st := range s.Stmts {
		r.Distinct(fmt.Sprintf("sign=%d factor=%d three=%v delta=%s bits=%d", st.Sign, st.Factor, st.Three, deltaClass(st.Delta), rw.key.Bits))
	}
	if err != nil {
		r.Violate("C13:true-statement-not-provable", det, "cannot prove true statements %+v: %v", s.Stmts, err)
		return
	}
	wire, merr := json.Marshal(pl)
	if merr != nil {
		det["three_squares_ge_bound_zero"] = threeSqBoundZero(s, rw)
		r.Violate("C13:proof-not-serialisable", det, "proof of true statements %+v cannot be encoded: %v", s.Stmts, merr)
		return
	}
	v := verifyWire(wire, rw.sess)
	if !v.Accepted {
		r.Violate("C13:honest-range-proof-rejected", det, "proof of true statements rejected (decode=%v panic=%s)", v.DecodeErr, v.Panic)
		return
	}
	pd := v.List[0].(*gabi.ProofD)
	// every requested statement is reported as proven by the range proof at its position
	pos := map[int]int{}
	for k, stm := range rw.flat {
		idx := rw.flatIdx[k]
		rps := pd.RangeProofs[idx]
		if pos[idx] >= len(rps) {
			r.Violate("C13:range-proof-missing", det, "statement %d on attribute %d has no range proof", k, idx)
			return
		}
		rp := rps[pos[idx]]
		pos[idx]++
		if !rp.Proves(stm) {
			r.Violate("C13:requested-statement-not-reported-proven", det, "statement %d (%+v) not reported as proven", k, s.Stmts[k])
		}
		typ, f, b := rp.ProvenStatement()
		sg, _ := typ.Sign()
		if !holds(sg, new(big.Int).SetUint64(uint64(f)), b, rw.ms[idx]) {
			r.Violate("C13:reported-statement-false", det, "ProvenStatement of an honest proof is false for the attribute")
		}
	}
	r.Sample(s)
}

func deltaClass(d string) string {
	if len(d) <= 2 {
		return d
	}
	return fmt.Sprintf("~10^%d", len(d))
}

func TestC13(t *testing.T) {
	RunProp(t, Prop[C12Spec]{ID: "C13", Draw: func(rt *rapid.T) C12Spec { return drawRangeSpec(rt, false) }, Exec: execC13})
}

// ---------------------------------------------------------------------------
// C12

var queryFactors = []uint{0, 1, 2, 3, 4, 8, 1 << 62, 1<<62 + 1, 1 << 63, 1<<64 - 1}

// checkRangeSemantics judges an accepted proof: everything its range proofs report or imply must hold.
func checkRangeSemantics(r *kernel.Run, fault string, pd *gabi.ProofD, ms []*big.Int) {
	det := map[string]any{"fault": fault}
	for idx, rps := range pd.RangeProofs {
		if _, hidden := pd.AResponses[idx]; !hidden {
			r.Violate("C12:unverified-range-proof:index-not-hidden", det, "%s: accepted proof carries a range proof at index %d which is not a hidden index", fault, idx)
			continue
		}
		m := big.NewInt(0)
		if idx >= 0 && idx < len(ms) {
			m = ms[idx]
		}
		for _, rp := range rps {
			if rp == nil {
				continue
			}
			typ, f, b := rp.ProvenStatement()
			sg, err := typ.Sign()
			if err != nil || !holds(sg, new(big.Int).SetUint64(uint64(f)), b, m) {
				r.Violate("C12:false-inequality-established", det, "%s: accepted range proof on attribute %d reports sign=%d factor=%d bound=%v, value is %v", fault, idx, sg, f, b, m)
			}
			// implied statements on a grid around the descriptor
			base := new(big.Int).Set(rp.K)
			if len(rp.Cs) == 3 {
				base.Add(base, big.NewInt(2)).Rsh(base, 2)
			}
			for _, sign := range []int{1, -1} {
				for _, qf := range append([]uint{rp.A, rp.A >> 2}, queryFactors...) {
					for db := int64(-4); db <= 4; db++ {
						qb := new(big.Int).Add(base, big.NewInt(db))
						if qb.Sign() < 0 {
							continue
						}
						if rp.ProvesStatement(sign, qf, qb) && !holds(sign, new(big.Int).SetUint64(uint64(qf)), qb, m) {
							r.Violate("C12:library-reports-false-implication", map[string]any{"fault": fault, "three": len(rp.Cs) == 3, "big_factor": qf > 1<<32},
								"%s: range proof (sign=%d a=%d k=%v, %d squares) is reported to prove sign=%d factor=%d bound=%v, false for value %v", fault, rp.Sign, rp.A, rp.K, len(rp.Cs), sign, qf, qb, m)
						}
					}
				}
			}
		}
	}
}

func execC12(r *kernel.Run, s C12Spec) {
	rw := buildRangeWorld(r, s)
	if !rw.usable {
		r.Probe("negative-bound-skipped")
		return
	}
	r.Eval(1)
	pl, err := rw.prove()
	r.Logf("key=%s stmts=%d anyfalse=%v err=%v", s.Key, len(s.Stmts), rw.anyFalse, err != nil)
	r.Distinct(fmt.Sprintf("stmts=%+v mask=%d bits=%d", s.Stmts, s.Mask, rw.key.Bits))
	if rw.anyFalse {
		r.Fault("false-statement-requested")
		if err == nil {
			// the honest prover must refuse; if it produced something, the verifier must not accept it
			v := verifyWire(mustJSON(pl), rw.sess)
			if v.Accepted {
				r.Violate("C12:false-statement-proven", nil, "prover produced and verifier accepted a proof for false statements %+v", s.Stmts)
			} else {
				r.Violate("C12:false-statement-not-refused-by-prover", nil, "prover produced a (rejected) proof for false statements %+v", s.Stmts)
			}
		}
		return
	}
	if err != nil {
		r.Probe("true-statement-not-provable(judged by C13)")
		return
	}
	wire, merr := json.Marshal(pl)
	if merr != nil {
		r.Probe("proof-not-serialisable(judged by C13)")
		return
	}
	v := verifyWire(wire, rw.sess)
	if !v.Accepted {
		r.Probe("honest-rejected(judged by C13)")
		return
	}
	checkRangeSemantics(r, "none", v.List[0].(*gabi.ProofD), rw.ms)

	deliver := func(id, kind string, b []byte) {
		if !wanted(s.OnlyFault, id) {
			return
		}
		r.Eval(1)
		r.Fault(kind)
		v := verifyWireTwice(b, rw.sess)
		checkReverify(r, "C12", id, v)
		if v.Panic != "" {
			r.Probe("receiver-panic(judged by C08)")
		}
		if v.Accepted && len(v.List) == 1 {
			r.Probe("mutant-accepted")
			if pd, ok := v.List[0].(*gabi.ProofD); ok {
				checkRangeSemantics(r, id, pd, rw.ms)
				checkAcceptedProofD(r, id, pd, rw.hc.Led, rw.key.Pk)
			}
		}
	}
	tree := kernel.MustDecode(wire)
	n := len(rw.ms)
	opts := kernel.MutOpts{Values: true, Structural: true, Rekeys: []string{"-1", "0", "1", "2", "3", fmt.Sprint(n - 1), fmt.Sprint(n), fmt.Sprint(len(rw.key.Pk.R)), "2147483648"}}
	for _, m := range kernel.Mutations(tree, opts) {
		if len(m.Path) >= 2 && (m.Path[1] == "rangeproofs" || m.Path[1] == "a_responses" || m.Path[1] == "a_disclosed") {
			deliver(m.ID, "tamper-field", m.Apply(tree))
		}
	}
	// descriptor edge values the generic catalogue does not contain
	kernel.Walk(tree, func(p kernel.Path, node any) {
		if len(p) < 4 || p[1] != "rangeproofs" {
			return
		}
		last := p[len(p)-1]
		var vals []string
		switch last {
		case "a":
			vals = []string{"0", "1", "4", "5", "9223372036854775808", "18446744073709551615"}
		case "sign":
			vals = []string{"0", "2", "-1", "1"}
		case "l_d":
			vals = []string{"0", "1", "255", "256", "257", "100000"}
		default:
			return
		}
		for _, val := range vals {
			pp, vv := p, val
			t2 := kernel.Set(kernel.Clone(tree), pp, jsonNumber(vv))
			deliver("edge:"+last+"="+vv+"@"+pp.String(), "descriptor-edge", kernel.Encode(t2))
		}
	})
	// Byzantine holder: range proofs with non-conventional descriptors, built through the public
	// API with a splitter that misreports its square count once (so that the three-squares
	// rescaling is skipped): three squares with a = 4 and k of every residue mod 4, both signs.
	// If such a proof is accepted, what it reports and implies must still be true.
	for _, st := range s.Stmts {
		m := rw.ms[st.Attr]
		if m.BitLen() > 40 {
			continue
		}
		for res := int64(0); res < 4; res++ {
			for _, sign := range []int{1, -1} {
				for _, slack := range []int64{0, 1, 2, 5} {
					// choose k with k = res (mod 4) and sign*(4m-k) = delta >= 0 small
					fourM := new(big.Int).Lsh(m, 2)
					k := new(big.Int).Sub(fourM, big.NewInt(int64(sign)*slack))
					for new(big.Int).Mod(k, big.NewInt(4)).Int64() != res {
						k.Sub(k, big.NewInt(int64(sign)))
					}
					if k.Sign() < 0 {
						continue
					}
					delta := new(big.Int).Sub(fourM, k)
					if sign == -1 {
						delta.Neg(delta)
					}
					sq := threeSquares(delta.Int64())
					if sq == nil {
						continue
					}
					id := fmt.Sprintf("byzantine-descriptor:attr%d:k%%4=%d:sign%d:slack%d", st.Attr, res, sign, slack)
					if !wanted(s.OnlyFault, id) {
						continue
					}
					stm := &rangeproof.Statement{Sign: sign, Factor: 4, Bound: k, Splitter: &lyingSplitter{sq: sq}}
					var pl gabi.ProofList
					var err error
					if p := guard(func() {
						b, e := rw.hc.Cred.CreateDisclosureProofBuilder(nil, map[int][]*rangeproof.Statement{st.Attr: {stm}}, false)
						if e != nil {
							err = e
							return
						}
						pl, err = gabi.ProofBuilderList{b}.BuildProofList(rw.sess.Context, rw.sess.Nonce, rw.sess.IsSig)
					}); p != "" || err != nil {
						r.Probe("byzantine-descriptor-not-buildable")
						continue
					}
					wb, merr := json.Marshal(pl)
					if merr != nil {
						continue
					}
					r.Probe("byzantine-descriptor-built")
					deliver(id, "byzantine-descriptor", wb)
				}
			}
		}
		break
	}
	// Byzantine holder, in memory: a range proof computed for a value of the holder's choosing (with
	// its own m response) attached to an honest disclosure proof, with the challenge computed over both
	for _, st := range s.Stmts {
		id := fmt.Sprintf("byzantine:free-standing-range-proof:attr%d", st.Attr)
		if !wanted(s.OnlyFault, id) {
			continue
		}
		fake := new(big.Int).Add(rw.ms[st.Attr], big.NewInt(1000000))
		bound := new(big.Int).Add(rw.ms[st.Attr], big.NewInt(500000)) // false for the signed value, true for the fake one
		structure, err := rangeproof.NewProofStructure(st.Attr, 1, 1, bound, nil)
		if err != nil {
			continue
		}
		inner, err := rw.hc.Cred.CreateDisclosureProofBuilder(rw.disclosed, nil, false)
		if err != nil {
			continue
		}
		fb := &freeRangeBuilder{inner: inner, pk: rw.key.Pk, structure: structure, index: st.Attr, fake: fake, rnd: randBits(hrand(s.ValSeed, 12), 500)}
		var pl gabi.ProofList
		if p := guard(func() {
			pl, err = gabi.ProofBuilderList{fb}.BuildProofList(rw.sess.Context, rw.sess.Nonce, rw.sess.IsSig)
		}); p != "" || err != nil {
			r.Probe("byzantine-free-standing-not-buildable")
			continue
		}
		r.Eval(1)
		r.Fault("byzantine-free-standing-range-proof")
		v := verifyObj(pl, rw.sess)
		if v.Accepted {
			r.Probe("mutant-accepted")
			if pd, ok := pl[0].(*gabi.ProofD); ok {
				checkRangeSemantics(r, id, pd, rw.ms)
			}
		}
		break
	}
	// Byzantine holder, in memory: a range proof whose commitments C_i are 0 (or multiples of n): every
	// power of them is 0, so every relation they appear in is trivially "satisfied"
	for di, deg := range []*big.Int{big.NewInt(0), new(big.Int).Set(rw.key.Pk.N), big.NewInt(0), new(big.Int).Set(rw.key.Pk.N)} {
		st := s.Stmts[0]
		id := fmt.Sprintf("byzantine:degenerate-range-commitments:%d", di)
		if !wanted(s.OnlyFault, id) {
			continue
		}
		bound := new(big.Int).Add(rw.ms[st.Attr], big.NewInt(500000)) // "m >= m+500000": false
		inner, err := rw.hc.Cred.CreateDisclosureProofBuilder(rw.disclosed, nil, false)
		if err != nil {
			continue
		}
		zb := &zeroRangeBuilder{inner: inner, pk: rw.key.Pk, index: st.Attr, bound: bound, deg: deg, layout: di / 2}
		var pl gabi.ProofList
		if p := guard(func() {
			pl, err = gabi.ProofBuilderList{zb}.BuildProofList(rw.sess.Context, rw.sess.Nonce, rw.sess.IsSig)
		}); p != "" || err != nil {
			r.Probe("byzantine-degenerate-not-buildable")
			continue
		}
		r.Eval(1)
		r.Fault("byzantine-degenerate-range-commitments")
		wb, merr := json.Marshal(pl)
		if merr != nil {
			continue
		}
		v := verifyWire(wb, rw.sess)
		if v.Accepted {
			r.Probe("mutant-accepted")
			if pd, ok := v.List[0].(*gabi.ProofD); ok {
				checkRangeSemantics(r, id, pd, rw.ms)
			}
		}
	}
	// Byzantine holder with a prover of its own: a range proof with an arbitrary descriptor (also signs
	// other than +-1) for the false claim a*m >= 3m+1000, computed by hand for each relation a verifier
	// might plausibly check for that descriptor (R^E = S^-v5 R^(P*m) prod C_i^d_i with E = +-k and
	// P = +-a or +-a*sign). The attribute randomizer is read off the honest builder through the public
	// API (CreateProof(0) returns the randomizers as responses).
	{
		st := s.Stmts[0]
		m := rw.ms[st.Attr]
		hh := hrand(s.ValSeed, 1212)
		signs := []int{0, 2, -2, 3, 1, -1}
		sign := signs[hh.IntN(len(signs))]
		a := []uint{1, 1, 2}[hh.IntN(3)]
		k := new(big.Int).Add(new(big.Int).Mul(m, big.NewInt(3*int64(a))), big.NewInt(1000))
		if sign == -1 { // the reported claim would be a*m <= k: make that false instead
			k = new(big.Int).Sub(new(big.Int).Mul(m, big.NewInt(int64(a))), big.NewInt(1))
		}
		// control: the same prover with the conventional descriptor, relation and a true claim must be accepted,
		// otherwise it is no adversary at all
		if wanted(s.OnlyFault, "byzantine:hand-prover-control") && uint(m.BitLen()) <= rw.key.Pk.Params.Lm {
			if inner, err := rw.hc.Cred.CreateDisclosureProofBuilder(rw.disclosed, nil, false); err == nil {
				kc := new(big.Int).Sub(m, big.NewInt(5))
				if kc.Sign() >= 0 {
					accepted := false
					for layout := 0; layout < 2 && !accepted; layout++ {
						if layout == 1 {
							if inner, err = rw.hc.Cred.CreateDisclosureProofBuilder(rw.disclosed, nil, false); err != nil {
								break
							}
						}
						hb := &handRangeBuilder{inner: inner, pk: rw.key.Pk, index: st.Attr, m: m, sign: 1, a: 1, k: kc, ld: min(160, rw.key.Pk.Params.Lm),
							E: new(big.Int).Neg(kc), P: big.NewInt(-1), hr: hh, layout: layout}
						var pl gabi.ProofList
						if p := guard(func() {
							pl, err = gabi.ProofBuilderList{hb}.BuildProofList(rw.sess.Context, rw.sess.Nonce, rw.sess.IsSig)
						}); p == "" && err == nil {
							accepted = verifyWire(mustJSON(pl), rw.sess).Accepted
						}
					}
					if accepted {
						r.Probe("hand-prover-control-accepted")
					} else {
						r.Probe("hand-prover-control-rejected")
					}
				}
			}
		}
		hyp := 0
		for _, e := range []int64{1, -1, 1, -1} {
			for _, pw := range []int64{-int64(a) * int64(sign), int64(a) * int64(sign), -int64(a), int64(a)} {
				hyp++
				layout := (hyp - 1) / 8 // hypotheses 9..16: the statement values are hashed as well
				id := fmt.Sprintf("byzantine:hand-prover:attr%d:sign%d:a%d:hyp%d", st.Attr, sign, a, hyp)
				if !wanted(s.OnlyFault, id) || k.Sign() < 0 {
					continue
				}
				inner, err := rw.hc.Cred.CreateDisclosureProofBuilder(rw.disclosed, nil, false)
				if err != nil {
					continue
				}
				hb := &handRangeBuilder{inner: inner, pk: rw.key.Pk, index: st.Attr, m: m, sign: sign, a: a, k: k, ld: min(160, rw.key.Pk.Params.Lm),
					E: new(big.Int).Mul(k, big.NewInt(e)), P: big.NewInt(pw), hr: hh, layout: layout}
				var pl gabi.ProofList
				if p := guard(func() {
					pl, err = gabi.ProofBuilderList{hb}.BuildProofList(rw.sess.Context, rw.sess.Nonce, rw.sess.IsSig)
				}); p != "" || err != nil {
					r.Probe("byzantine-hand-prover-not-buildable")
					continue
				}
				wb, merr := json.Marshal(pl)
				if merr != nil {
					continue
				}
				r.Probe("byzantine-hand-prover-built")
				deliver(id, "byzantine-hand-prover", wb)
			}
		}
	}
	// statements with factors beyond the signed 64-bit range, requested through the honest API: whatever the
	// prover makes of them, an accepted proof must report and imply only true facts
	for _, f := range []uint{1 << 63, 1<<63 + 1, 1<<64 - 1} {
		for _, sign := range []int{1, -1} {
			for _, bnd := range []int64{0, 5} {
				st := s.Stmts[0]
				id := fmt.Sprintf("huge-factor:attr%d:%d:sign%d:bound%d", st.Attr, f, sign, bnd)
				if !wanted(s.OnlyFault, id) {
					continue
				}
				stm := &rangeproof.Statement{Sign: sign, Factor: f, Bound: big.NewInt(bnd)}
				var pl gabi.ProofList
				var err error
				if p := guard(func() {
					var b *gabi.DisclosureProofBuilder
					if b, err = rw.hc.Cred.CreateDisclosureProofBuilder(rw.disclosed, map[int][]*rangeproof.Statement{st.Attr: {stm}}, false); err != nil {
						return
					}
					pl, err = gabi.ProofBuilderList{b}.BuildProofList(rw.sess.Context, rw.sess.Nonce, rw.sess.IsSig)
				}); p != "" || err != nil {
					r.Probe("huge-factor-refused-by-prover")
					continue
				}
				if wb, merr := json.Marshal(pl); merr == nil {
					r.Probe("huge-factor-proof-built")
					deliver(id, "descriptor-edge", wb)
				}
			}
		}
	}
	// Byzantine holder who chooses the statement AFTER the challenge: it hashes fixed first-message values
	// T_i = R^(2^(64 i)), T_m = R^(X - r_m), waits for c, and only then picks the commitments C_i and the
	// bound k (neither is an input of the challenge) so that every T is reconstructed exactly
	if id := fmt.Sprintf("byzantine:statement-chosen-after-challenge:attr%d", s.Stmts[0].Attr); wanted(s.OnlyFault, id) {
		st := s.Stmts[0]
		if inner, err := rw.hc.Cred.CreateDisclosureProofBuilder(rw.disclosed, nil, false); err == nil && uint(rw.ms[st.Attr].BitLen()) <= rw.key.Pk.Params.Lm {
			fb := &forgeRangeBuilder{inner: inner, pk: rw.key.Pk, index: st.Attr, m: rw.ms[st.Attr], hr: hrand(s.ValSeed, 1213)}
			var pl gabi.ProofList
			if p := guard(func() {
				pl, err = gabi.ProofBuilderList{fb}.BuildProofList(rw.sess.Context, rw.sess.Nonce, rw.sess.IsSig)
			}); p != "" || err != nil {
				r.Probe("byzantine-forger-not-buildable")
			} else if wb, merr := json.Marshal(pl); merr == nil {
				r.Probe("byzantine-forger-built")
				deliver(id, "byzantine-statement-after-challenge", wb)
			}
		}
	}
	// range proofs of another credential (other values, same statements where provable) moved into this proof
	other := buildOtherRangeProof(r, rw, s)
	if other != nil {
		o := kernel.MutOpts{Donor: kernel.MustDecode(other)}
		for _, m := range kernel.Mutations(tree, o) {
			if m.Kind == "exchange" && len(m.Path) >= 2 && m.Path[1] == "rangeproofs" {
				deliver("transplant:"+m.ID, "transplant", m.Apply(tree))
			}
		}
	}
	r.Sample(s)
}

// buildOtherRangeProof makes a second credential with larger values prove the same statements
// (where they are true for it) in the same session tuple.
func buildOtherRangeProof(r *kernel.Run, rw *rangeWorld, s C12Spec) []byte {
	var attrs []*big.Int
	for _, m := range rw.ms[1:] {
		attrs = append(attrs, new(big.Int).Add(m, big.NewInt(1000)))
	}
	c, _ := signCredential(rw.key, rw.ms[0], attrs)
	stmts := map[int][]*rangeproof.Statement{}
	for k, stm := range rw.flat {
		if stm.Sign == 1 { // m+1000 still satisfies a ">=" statement
			stmts[rw.flatIdx[k]] = append(stmts[rw.flatIdx[k]], &rangeproof.Statement{Sign: 1, Factor: stm.Factor, Bound: stm.Bound})
		}
	}
	if len(stmts) == 0 {
		return nil
	}
	b, err := c.CreateDisclosureProofBuilder(rw.disclosed, stmts, false)
	if err != nil {
		return nil
	}
	pl, err := gabi.ProofBuilderList{b}.BuildProofList(rw.sess.Context, rw.sess.Nonce, rw.sess.IsSig)
	if err != nil {
		return nil
	}
	return mustJSON(pl)
}

func TestC12(t *testing.T) {
	RunProp(t, Prop[C12Spec]{ID: "C12", Draw: func(rt *rapid.T) C12Spec { return drawRangeSpec(rt, true) }, Exec: execC12,
		Minimise: func(s C12Spec, v kernel.Violation) C12Spec {
			if f, ok := v.Details["fault"].(string); ok && f != "none" {
				s.OnlyFault = []string{f}
			}
			return s
		}})
}

// lyingSplitter returns three given squares but claims four squares the first time it is asked,
// which makes NewProofStructure skip the three-squares rescaling of factor and bound.
type lyingSplitter struct {
	sq    []*big.Int
	asked int
}

func (l *lyingSplitter) Ld() uint { return 32 }
func (l *lyingSplitter) SquareCount() int {
	l.asked++
	if l.asked == 1 {
		return 4
	}
	return 3
}
func (l *lyingSplitter) Split(*big.Int) ([]*big.Int, error) { return l.sq, nil }

// threeSquares finds a, b, c with a^2+b^2+c^2 = n for small n (nil if none).
func threeSquares(n int64) []*big.Int {
	if n < 0 || n > 1<<20 {
		return nil
	}
	for a := int64(0); a*a <= n; a++ {
		for b := a; a*a+b*b <= n; b++ {
			rest := n - a*a - b*b
			c := int64(0)
			for c*c < rest {
				c++
			}
			if c*c == rest {
				return []*big.Int{big.NewInt(a), big.NewInt(b), big.NewInt(c)}
			}
		}
	}
	return nil
}

// freeRangeBuilder is a Byzantine holder's builder: an honest disclosure builder plus a range proof
// about a value of its own choosing, hashed into the same challenge.
type freeRangeBuilder struct {
	inner     *gabi.DisclosureProofBuilder
	pk        *gabikeys.PublicKey
	structure *rangeproof.ProofStructure
	commit    *rangeproof.ProofCommit
	index     int
	fake, rnd *big.Int
}

func (f *freeRangeBuilder) Commit(rz map[string]*big.Int) ([]*big.Int, error) {
	list, err := f.inner.Commit(rz)
	if err != nil {
		return nil, err
	}
	contrib, commit, err := f.structure.CommitmentsFromSecrets(f.pk, f.fake, f.rnd)
	if err != nil {
		return nil, err
	}
	f.commit = commit
	return append(list, contrib...), nil
}

func (f *freeRangeBuilder) CreateProof(c *big.Int) gabi.Proof {
	pd := f.inner.CreateProof(c).(*gabi.ProofD)
	pd.RangeProofs = map[int][]*rangeproof.Proof{f.index: {f.structure.BuildProof(f.commit, c)}}
	return pd
}
func (f *freeRangeBuilder) PublicKey() *gabikeys.PublicKey             { return f.pk }
func (f *freeRangeBuilder) SetProofPCommitment(*gabi.ProofPCommitment) {}

// zeroRangeBuilder attaches a four-square range proof for a false statement whose commitments are
// all degenerate (0 modulo n); the contributions it hashes are the zeros a verifier will reconstruct.
type zeroRangeBuilder struct {
	inner  *gabi.DisclosureProofBuilder
	pk     *gabikeys.PublicKey
	index  int
	bound  *big.Int
	deg    *big.Int
	layout int
}

func (z *zeroRangeBuilder) Commit(rz map[string]*big.Int) ([]*big.Int, error) {
	list, err := z.inner.Commit(rz)
	if err != nil {
		return nil, err
	}
	if z.layout == 1 {
		list = append(list, stmtValues(z.index, 1, 1, z.bound, 128, []*big.Int{z.deg, z.deg, z.deg, z.deg})...)
	}
	for i := 0; i < 5; i++ { // mCorrect + 4 commitments representations
		list = append(list, big.NewInt(0))
	}
	return list, nil
}

func (z *zeroRangeBuilder) CreateProof(c *big.Int) gabi.Proof {
	pd := z.inner.CreateProof(c).(*gabi.ProofD)
	rp := &rangeproof.Proof{V5Response: big.NewInt(1), Ld: 128, Sign: 1, A: 1, K: z.bound}
	for i := 0; i < 4; i++ {
		rp.Cs = append(rp.Cs, new(big.Int).Set(z.deg))
		rp.DResponses = append(rp.DResponses, big.NewInt(1))
		rp.VResponses = append(rp.VResponses, big.NewInt(1))
	}
	pd.RangeProofs = map[int][]*rangeproof.Proof{z.index: {rp}}
	return pd
}
func (z *zeroRangeBuilder) PublicKey() *gabikeys.PublicKey             { return z.pk }
func (z *zeroRangeBuilder) SetProofPCommitment(*gabi.ProofPCommitment) {}

// handRangeBuilder is a Byzantine holder's own range prover: an honest disclosure builder plus a range
// proof with a freely chosen descriptor (sign, a, k), computed for the relation
// R^E = S^-v5 * R^(P*m) * prod C_i^d_i, i.e. sum d_i^2 = E - P*m, by the harness's own arithmetic.
type handRangeBuilder struct {
	inner      *gabi.DisclosureProofBuilder
	pk         *gabikeys.PublicKey
	index      int
	m          *big.Int
	sign       int
	a          uint
	k          *big.Int
	ld         uint
	E, P       *big.Int
	hr         *mrand.Rand
	d, v       []*big.Int
	rd, rv, cs []*big.Int
	v5, rv5    *big.Int
	layout     int // 0: only the first-message values are hashed; 1: preceded by index, sign, a, k, l_d and the C_i
}

// stmtValues is what fixes a range statement, in the order the library hashes it.
func stmtValues(index, sign int, a uint, k *big.Int, ld uint, cs []*big.Int) []*big.Int {
	flag := func(b bool) *big.Int {
		if b {
			return big.NewInt(1)
		}
		return big.NewInt(0)
	}
	out := []*big.Int{new(big.Int).Abs(big.NewInt(int64(index))), flag(index < 0), flag(sign < 0), new(big.Int).SetUint64(uint64(a)),
		new(big.Int).Abs(k), flag(k.Sign() < 0), new(big.Int).SetUint64(uint64(ld))}
	return append(out, cs...)
}

func modExpSigned(b, e, n *big.Int) *big.Int {
	if e.Sign() >= 0 {
		return new(big.Int).Exp(b, e, n)
	}
	inv := new(big.Int).ModInverse(b, n)
	if inv == nil {
		return big.NewInt(0)
	}
	return new(big.Int).Exp(inv, new(big.Int).Neg(e), n)
}

func (h *handRangeBuilder) Commit(rz map[string]*big.Int) ([]*big.Int, error) {
	list, err := h.inner.Commit(rz)
	if err != nil {
		return nil, err
	}
	probe, ok := h.inner.CreateProof(big.NewInt(0)).(*gabi.ProofD)
	if !ok || probe.AResponses[h.index] == nil {
		return nil, errors.New("attribute not hidden")
	}
	rm := probe.AResponses[h.index]
	mm := h.m
	if uint(mm.BitLen()) > h.pk.Params.Lm {
		return nil, errors.New("hashed attribute")
	}
	T := new(big.Int).Sub(h.E, new(big.Int).Mul(h.P, mm))
	if T.Sign() < 0 {
		return nil, errors.New("target negative under this hypothesis")
	}
	h.d, err = (&rangeproof.FourSquaresSplitter{}).Split(T)
	if err != nil || len(h.d) != 4 {
		return nil, errors.New("no split")
	}
	par := h.pk.Params
	N, R, S := h.pk.N, h.pk.R[h.index], h.pk.S
	h.v5 = big.NewInt(0)
	tm := big.NewInt(1)
	var ts []*big.Int
	for i := range h.d {
		if uint(h.d[i].BitLen()) > h.ld {
			return nil, errors.New("square root too long for l_d")
		}
		h.v = append(h.v, randBits(h.hr, int(par.Lm)))
		h.rd = append(h.rd, randBits(h.hr, int(h.ld+par.Lh+par.Lstatzk)))
		h.rv = append(h.rv, randBits(h.hr, int(par.Lm+par.Lh+par.Lstatzk)))
		c := new(big.Int).Exp(R, h.d[i], N)
		c.Mul(c, new(big.Int).Exp(S, h.v[i], N)).Mod(c, N)
		h.cs = append(h.cs, c)
		h.v5.Add(h.v5, new(big.Int).Mul(h.d[i], h.v[i]))
		tm.Mul(tm, new(big.Int).Exp(c, h.rd[i], N)).Mod(tm, N)
		t := new(big.Int).Exp(R, h.rd[i], N)
		t.Mul(t, new(big.Int).Exp(S, h.rv[i], N)).Mod(t, N)
		ts = append(ts, t)
	}
	h.rv5 = randBits(h.hr, int(par.Lm+h.ld+2+par.Lh+par.Lstatzk))
	tm.Mul(tm, modExpSigned(S, new(big.Int).Neg(h.rv5), N)).Mod(tm, N)
	tm.Mul(tm, modExpSigned(R, new(big.Int).Mul(h.P, rm), N)).Mod(tm, N)
	if h.layout == 1 {
		list = append(list, stmtValues(h.index, h.sign, h.a, h.k, h.ld, h.cs)...)
	}
	list = append(list, tm)
	return append(list, ts...), nil
}

func (h *handRangeBuilder) CreateProof(c *big.Int) gabi.Proof {
	pd := h.inner.CreateProof(c).(*gabi.ProofD)
	resp := func(secret, rnd *big.Int) *big.Int { return new(big.Int).Add(new(big.Int).Mul(c, secret), rnd) }
	rp := &rangeproof.Proof{V5Response: resp(h.v5, h.rv5), Ld: h.ld, Sign: h.sign, A: h.a, K: new(big.Int).Set(h.k)}
	for i := range h.d {
		rp.Cs = append(rp.Cs, h.cs[i])
		rp.DResponses = append(rp.DResponses, resp(h.d[i], h.rd[i]))
		rp.VResponses = append(rp.VResponses, resp(h.v[i], h.rv[i]))
	}
	pd.RangeProofs = map[int][]*rangeproof.Proof{h.index: {rp}}
	return pd
}
func (h *handRangeBuilder) PublicKey() *gabikeys.PublicKey             { return h.pk }
func (h *handRangeBuilder) SetProofPCommitment(*gabi.ProofPCommitment) {}

// forgeRangeBuilder is the Byzantine holder that fixes the hashed first-message values of a range proof
// before the challenge and the statement (commitments C_i and bound k) after it. It needs nothing but its
// own credential: the CL part is the honest builder's, the attribute randomizer is read off it.
type forgeRangeBuilder struct {
	inner *gabi.DisclosureProofBuilder
	pk    *gabikeys.PublicKey
	index int
	m     *big.Int
	hr    *mrand.Rand
	bigX  *big.Int
	xs    []*big.Int
}

func (f *forgeRangeBuilder) Commit(rz map[string]*big.Int) ([]*big.Int, error) {
	list, err := f.inner.Commit(rz)
	if err != nil {
		return nil, err
	}
	probe, ok := f.inner.CreateProof(big.NewInt(0)).(*gabi.ProofD)
	if !ok || probe.AResponses[f.index] == nil {
		return nil, errors.New("attribute not hidden")
	}
	rm := probe.AResponses[f.index]
	R, N := f.pk.R[f.index], f.pk.N
	f.bigX = pow2(200 + f.pk.Params.Lh)
	list = append(list, modExpSigned(R, new(big.Int).Sub(f.bigX, rm), N))
	f.xs = nil
	for i := 0; i < 4; i++ {
		x := pow2(uint(64 * i))
		f.xs = append(f.xs, x)
		list = append(list, new(big.Int).Exp(R, x, N))
	}
	return list, nil
}

func (f *forgeRangeBuilder) CreateProof(c *big.Int) gabi.Proof {
	pd := f.inner.CreateProof(c).(*gabi.ProofD)
	R, S, N := f.pk.R[f.index], f.pk.S, f.pk.N
	y := new(big.Int).Mod(f.bigX, c)
	q := new(big.Int).Sub(f.bigX, y)
	q.Div(q, c)
	mask := new(big.Int).Sub(pow2(64), big.NewInt(1))
	k := new(big.Int).Add(f.m, q)
	rp := &rangeproof.Proof{Ld: 128, Sign: 1, A: 1, V5Response: big.NewInt(0)}
	for i := 0; i < 4; i++ {
		alpha := new(big.Int).And(new(big.Int).Rsh(y, uint(64*i)), mask)
		beta := randBits(f.hr, int(f.pk.Params.Lm))
		k.Sub(k, new(big.Int).Mul(alpha, alpha))
		ci := new(big.Int).Exp(R, alpha, N)
		ci.Mul(ci, new(big.Int).Exp(S, beta, N)).Mod(ci, N)
		dResp := new(big.Int).Add(f.xs[i], new(big.Int).Mul(c, alpha))
		rp.Cs = append(rp.Cs, ci)
		rp.DResponses = append(rp.DResponses, dResp)
		rp.VResponses = append(rp.VResponses, new(big.Int).Mul(c, beta))
		rp.V5Response.Add(rp.V5Response, new(big.Int).Mul(beta, dResp))
	}
	rp.K = k
	pd.RangeProofs = map[int][]*rangeproof.Proof{f.index: {rp}}
	return pd
}
func (f *forgeRangeBuilder) PublicKey() *gabikeys.PublicKey             { return f.pk }
func (f *forgeRangeBuilder) SetProofPCommitment(*gabi.ProofPCommitment) {}
