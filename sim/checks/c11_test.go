package checks

import (
	"encoding/json"
	"errors"
	"fmt"
	"strings"
	"testing"
	"time"

	"github.com/privacybydesign/gabi"
	"github.com/privacybydesign/gabi/big"
	"github.com/privacybydesign/gabi/gabikeys"
	"github.com/privacybydesign/gabi/revocation"
	"pgregory.net/rapid"

	"verif/sim/kernel"
)

// C11 — non-revocation proofs are sound and tied to the credential.
//
// World: revocation authority, a holder with 1..3 revocable credentials, a
// verifier. A run is an interleaving of {prepare cache, revoke other, revoke
// self, update witness, holder restart, prove+verify}; prepared commitments go
// stale across witness updates (the UpdateCommit path). At selected proofs the
// corrupting link applies the catalogue to the non-revocation part: every leaf
// altered, parts transplanted from another credential's proof and from an older
// proof of the same credential, and a Byzantine holder pairs a stale witness
// with a newer accumulator. Oracle: accepted => the credential's value is in
// the really signed accumulator the verifier reads from the proof.

type c11Op struct {
	Kind   int  `json:"kind"` // 0 prepare cache, 1 revoke other, 2 revoke self, 3 update witness, 4 prove, 5 restart holder, 6 clock, 7 = 0;1;3 (makes a prepared commitment stale), 8 = 0;6;3;4 (same-index refresh under a prepared commitment)
	Cred   int  `json:"cred"`
	Tamper bool `json:"tamper"`
}

type C11Spec struct {
	Key       string   `json:"key"`
	LibSeed   uint64   `json:"lib_seed"`
	ValSeed   uint64   `json:"val_seed"`
	NCreds    int      `json:"n_creds"`
	NAttrs    int      `json:"n_attrs"`
	Ops       []c11Op  `json:"ops"`
	OnlyFault []string `json:"only_fault,omitempty"`
}

func drawC11(rt *rapid.T) C11Spec {
	s := C11Spec{LibSeed: rapid.Uint64().Draw(rt, "libseed"), ValSeed: rapid.Uint64().Draw(rt, "valseed")}
	w := rapid.IntRange(0, 99).Draw(rt, "keyw")
	switch {
	case w >= 98 && thorough():
		s.Key = rapid.SampledFrom(kernel.KeyNames(2048)).Draw(rt, "key")
	case w >= 92:
		s.Key = rapid.SampledFrom(kernel.KeyNames(1024)).Draw(rt, "key")
	case w >= 75:
		s.Key = rapid.SampledFrom(kernel.KeyNames(512)).Draw(rt, "key")
	default:
		s.Key = rapid.SampledFrom(kernel.KeyNames(256)).Draw(rt, "key")
	}
	s.NCreds = rapid.IntRange(1, 3).Draw(rt, "ncreds")
	s.NAttrs = rapid.IntRange(1, 4).Draw(rt, "nattrs")
	depth := 6
	if thorough() {
		depth = 10
	}
	n := rapid.IntRange(1, depth).Draw(rt, "nops")
	for i := 0; i < n; i++ {
		op := c11Op{Kind: rapid.SampledFrom([]int{0, 0, 1, 1, 2, 3, 3, 4, 4, 4, 5, 6, 7, 7, 8}).Draw(rt, "kind"), Cred: rapid.IntRange(0, s.NCreds-1).Draw(rt, "cred")}
		s.Ops = append(s.Ops, op)
	}
	// every run ends with a proof; one proof per run carries the tamper catalogue
	s.Ops = append(s.Ops, c11Op{Kind: 4, Cred: rapid.IntRange(0, s.NCreds-1).Draw(rt, "lastcred"), Tamper: true})
	return s
}

func execC11(r *kernel.Run, s C11Spec) {
	if p := kernel.InBubble(r.T, func() { execC11Bubble(r, s) }); p != nil {
		panic(p)
	}
}

type c11Shown struct {
	wire []byte
	cred int
}

func execC11Bubble(r *kernel.Run, s C11Spec) {
	kernel.SeedLibrary(r.T, s.LibSeed)
	w := newWorld(r, s.ValSeed)
	key := kernel.GetKey(s.Key)
	pk := key.Pk
	ra := w.RA(key)
	secret := newSecret()
	classes := make([]int, s.NAttrs)
	for i := range classes {
		classes[i] = 2 + 6*(i%2)
	}
	var creds []*HeldCred
	for i := 0; i < s.NCreds; i++ {
		creds = append(creds, w.NewCred(key, secret, classes, true))
	}
	preparedAt := make([]int64, s.NCreds) // accumulator index at which a commitment was last prepared (-1 none)
	for i := range preparedAt {
		preparedAt[i] = -1
	}
	revokedAt := make([]int, s.NCreds) // ledger: event index that removed the credential's value (0 = not revoked)
	var shown []c11Shown               // earlier accepted proofs: donors for transplants
	sessKeys := []*gabikeys.PublicKey{pk}
	r.Logf("key=%s creds=%d attrs=%d", s.Key, s.NCreds, s.NAttrs)

	// the ledger predicate for an accepted proof of credential ci
	checkAccepted := func(fault string, pd *gabi.ProofD, ci int, provedIdx uint64, provedTime int64, honest bool) {
		det := map[string]any{"fault": fault}
		np := pd.NonRevocationProof
		if np == nil || np.SignedAccumulator == nil || np.SignedAccumulator.Accumulator == nil {
			if honest {
				r.Violate("C11:accepted-without-accumulator", det, "%s: accepted proof carries no verified accumulator", fault)
			} else {
				// the non-revocation part was removed in transit: the verifier sees a proof without it, which it can tell
				r.Probe("nonrev-part-stripped")
			}
			return
		}
		acc := np.SignedAccumulator.Accumulator
		if acc.Index > uint64(ra.Head()) || ra.Accs[acc.Index].Nu.Cmp(acc.Nu) != 0 || np.SignedAccumulator.PKCounter != pk.Counter {
			r.Violate("C11:accepted-with-unauthentic-accumulator", det, "%s: the accumulator read from the accepted proof was never signed by the authority", fault)
			return
		}
		if revokedAt[ci] != 0 && uint64(revokedAt[ci]) <= acc.Index {
			r.Violate("C11:accepted-revoked-credential", det, "%s: credential revoked at %d proves non-revocation against accumulator %d", fault, revokedAt[ci], acc.Index)
		}
		if acc.Index != provedIdx {
			r.Violate("C11:accumulator-index-not-the-one-proved-against", det, "%s: verifier reads index %d, proof was made against %d", fault, acc.Index, provedIdx)
		} else if honest && acc.Time != provedTime {
			r.Violate("C11:accumulator-time-not-the-one-proved-against", det, "%s: verifier reads time %d, witness pointed at %d", fault, acc.Time, provedTime)
		}
	}

	// expand the composite op (bias towards the stale-commitment path)
	var ops []c11Op
	for _, op := range s.Ops {
		if op.Kind == 7 {
			ops = append(ops, c11Op{Kind: 0, Cred: op.Cred}, c11Op{Kind: 1, Cred: op.Cred}, c11Op{Kind: 3, Cred: op.Cred})
			continue
		}
		if op.Kind == 8 { // prepared commitment, then the same accumulator re-signed later, witness refreshed
			ops = append(ops, c11Op{Kind: 0, Cred: op.Cred}, c11Op{Kind: 6, Cred: op.Cred}, c11Op{Kind: 3, Cred: op.Cred}, c11Op{Kind: 4, Cred: op.Cred})
			continue
		}
		ops = append(ops, op)
	}
	s.Ops = ops
	for n, op := range s.Ops {
		hc := creds[op.Cred]
		cred := hc.Cred
		step := fmt.Sprintf("op%d", n)
		switch op.Kind {
		case 0:
			err := cred.NonrevPrepareCache()
			r.Logf("%s prepare cred=%d err=%v", step, op.Cred, err != nil)
			preparedAt[op.Cred] = int64(cred.NonRevocationWitness.SignedAccumulator.Accumulator.Index)
			if err != nil {
				r.Violate("C11:prepare-cache-failed", nil, "%s: %v", step, err)
			}
		case 1:
			o, err := revocation.RandomWitness(key.Sk, ra.Accs[ra.Head()])
			if err != nil {
				panic(err)
			}
			if err := ra.Revoke(o.E); err != nil {
				panic(err)
			}
			r.Logf("%s revoke other -> head %d", step, ra.Head())
		case 2:
			if revokedAt[op.Cred] == 0 {
				if err := ra.Revoke(hc.Led.Witness); err != nil {
					panic(err)
				}
				revokedAt[op.Cred] = ra.Head()
			}
			r.Logf("%s revoke self cred=%d -> head %d", step, op.Cred, ra.Head())
		case 3:
			u, err := ra.Update(0, ra.Head())
			if err != nil {
				panic(err)
			}
			before := cred.NonRevocationWitness.SignedAccumulator.Accumulator.Index
			err = cred.NonRevocationWitness.Update(pk, u)
			r.Logf("%s update cred=%d %d->%d err=%v", step, op.Cred, before, cred.NonRevocationWitness.SignedAccumulator.Accumulator.Index, err)
			if revokedAt[op.Cred] != 0 && uint64(revokedAt[op.Cred]) > before {
				if err != revocation.ErrorRevoked {
					r.Violate("C11:revoked-witness-updated", nil, "%s: update of a revoked witness returned %v", step, err)
				}
			} else if err != nil {
				r.Violate("C11:witness-update-failed", nil, "%s: %v", step, err)
			}
			if before < uint64(ra.Head()) && err == nil {
				r.Fault("stale-cache-candidate")
			}
		case 5:
			r.Fault("crash-restart")
			nc := &gabi.Credential{}
			mustUnmarshal(mustJSON(cred), nc)
			nc.Pk = pk
			if err := nc.NonRevocationWitness.Verify(pk); err != nil {
				r.Violate("C11:reloaded-witness-invalid", nil, "%s: %v", step, err)
				continue
			}
			hc.Cred = nc
			preparedAt[op.Cred] = -1
			r.Logf("%s restart cred=%d", step, op.Cred)
		case 6:
			time.Sleep(time.Hour)
			r.SimTime(3600)
			if err := ra.Resign(ra.Head()); err != nil {
				panic(err)
			}
			r.Fault("clock:resign-later")
		case 4:
			wit := cred.NonRevocationWitness
			provedIdx, provedTime := wit.SignedAccumulator.Accumulator.Index, wit.SignedAccumulator.Accumulator.Time
			ctx, nonce := randBits(w.hr, 200), randBits(w.hr, 80)
			sess := Session{Context: ctx, Nonce: nonce, Keys: sessKeys}
			disclosed := []int{}
			if s.NAttrs > 1 && n%2 == 0 {
				disclosed = []int{1}
			}
			r.Eval(1)
			switch {
			case preparedAt[op.Cred] < 0:
				r.Probe("proved-without-prepared-commitment")
			case uint64(preparedAt[op.Cred]) < provedIdx:
				r.Probe("proved-with-refreshed-stale-commitment")
				r.Fault("stale-cache")
			default:
				r.Probe("proved-with-fresh-prepared-commitment")
			}
			preparedAt[op.Cred] = -1
			pdHonest, err := cred.CreateDisclosureProof(disclosed, nil, true, ctx, nonce)
			if err != nil {
				r.Violate("C11:cannot-prove-with-valid-witness", nil, "%s: witness at %d is valid, CreateDisclosureProof fails: %v", step, provedIdx, err)
				continue
			}
			wire := mustJSON(gabi.ProofList{pdHonest})
			v := verifyWire(wire, sess)
			r.Logf("%s prove cred=%d idx=%d accepted=%v", step, op.Cred, provedIdx, v.Accepted)
			r.Distinct(fmt.Sprintf("prove idx=%d head=%d revoked=%d ops=%v", provedIdx, ra.Head(), revokedAt[op.Cred], opsPrefix(s.Ops, n)))
			if !v.Accepted {
				det := map[string]any{"panic": v.Panic != ""}
				if v.Ambiguous {
					det["small_hidden_responses"] = ">=2"
				}
				r.Violate("C11:honest-proof-rejected", det, "%s: proof from a valid witness at index %d rejected (decode=%v panic=%s)", step, provedIdx, v.DecodeErr, v.Panic)
				continue
			}
			checkAccepted("none", v.List[0].(*gabi.ProofD), op.Cred, provedIdx, provedTime, true)
			if op.Tamper {
				c11Tamper(r, s, w, key, ra, creds, op.Cred, wire, sess, shown, provedIdx, provedTime, checkAccepted)
			}
			shown = append(shown, c11Shown{wire, op.Cred})
		}
	}
	r.Sample(s)
}

func opsPrefix(ops []c11Op, n int) string {
	var sb strings.Builder
	for i := 0; i <= n && i < len(ops); i++ {
		fmt.Fprintf(&sb, "%d", ops[i].Kind)
	}
	return sb.String()
}

func c11Tamper(r *kernel.Run, s C11Spec, w *World, key *kernel.Key, ra *kernel.RevAuthority, creds []*HeldCred, ci int, wire []byte, sess Session,
	shown []c11Shown, provedIdx uint64, provedTime int64, checkAccepted func(string, *gabi.ProofD, int, uint64, int64, bool)) {
	pk := key.Pk
	deliver := func(id, kind string, b []byte) {
		if !wanted(s.OnlyFault, id) {
			return
		}
		r.Eval(1)
		r.Fault(kind)
		v := verifyWireTwice(b, sess)
		checkReverify(r, "C11", id, v)
		if v.Panic != "" {
			r.Probe("receiver-panic(judged by C08)")
		}
		if v.Accepted && len(v.List) == 1 {
			r.Probe("mutant-accepted")
			if pd, ok := v.List[0].(*gabi.ProofD); ok {
				checkAccepted(id, pd, ci, provedIdx, provedTime, false)
			}
		}
	}
	tree := kernel.MustDecode(wire)
	under := func(p kernel.Path) bool {
		return len(p) >= 2 && (p[1] == "nonrev_proof" || p[1] == "a_responses")
	}
	// donors: another credential's fresh proof in the same session tuple, and older proofs
	type donor struct {
		name string
		tree any
	}
	var donors []donor
	for j, o := range creds {
		if j == ci {
			continue
		}
		if pd, err := o.Cred.CreateDisclosureProof(nil, nil, true, sess.Context, sess.Nonce); err == nil {
			donors = append(donors, donor{fmt.Sprintf("cred%d", j), kernel.MustDecode(mustJSON(gabi.ProofList{pd}))})
		}
	}
	for k, sh := range shown {
		if len(donors) >= 4 {
			break
		}
		donors = append(donors, donor{fmt.Sprintf("older%d(cred%d)", k, sh.cred), kernel.MustDecode(sh.wire)})
	}
	opts := kernel.MutOpts{Values: true, Structural: true}
	for _, m := range kernel.Mutations(tree, opts) {
		if under(m.Path) {
			deliver(m.ID, "tamper-field", m.Apply(tree))
		}
	}
	for _, d := range donors {
		o := kernel.MutOpts{Donor: d.tree}
		for _, m := range kernel.Mutations(tree, o) {
			if m.Kind == "exchange" && under(m.Path) {
				deliver("transplant:"+d.name+":"+m.ID, "transplant", m.Apply(tree))
			}
		}
		// the whole non-revocation part at once
		if dn, ok := kernel.Get(d.tree, kernel.Path{"0", "nonrev_proof"}); ok {
			t2 := kernel.Set(kernel.Clone(tree), kernel.Path{"0", "nonrev_proof"}, kernel.Clone(dn))
			deliver("transplant:"+d.name+":whole-nonrev-part", "transplant", kernel.Encode(t2))
		}
	}
	// re-signed accumulators of every index substituted into the proof
	for i := 0; i <= ra.Head(); i++ {
		sa := ra.SAccs[i]
		t2 := kernel.Set(kernel.Clone(tree), kernel.Path{"0", "nonrev_proof", "sacc"}, kernel.MustDecode(mustJSON(sa)))
		deliver(fmt.Sprintf("substitute-accumulator:%d", i), "substitute-accumulator", kernel.Encode(t2))
	}
	// Byzantine holder who also controls ANOTHER issuer X with the same key counter: it makes up an
	// accumulator nu = u^e mod n for its own (possibly revoked) value e, has X sign it, lets the verifier
	// see that signed accumulator once under X's key (a verifier serving several issuers), and then
	// presents its credential of THIS issuer against it
	if wanted(s.OnlyFault, "byzantine:accumulator-signed-by-other-issuer") {
		var other *kernel.Key
		for _, n := range kernel.KeyNames(0) {
			if k := kernel.GetKey(n); k.Name != key.Name && k.Pk.Counter == pk.Counter && k.Pk.N.Cmp(pk.N) != 0 {
				other = k
				break
			}
		}
		if other != nil {
			r.Fault("byzantine-holder")
			hc := creds[ci]
			e := hc.Led.Witness
			u := new(big.Int).Exp(randBits(w.hr, 200), big.NewInt(2), pk.N)
			fakeAcc := &revocation.Accumulator{Nu: new(big.Int).Exp(u, e, pk.N), Index: uint64(ra.Head()) + 1, Time: 946684800 + 86400, EventHash: ra.Accs[ra.Head()].EventHash}
			sacc, err := fakeAcc.Sign(other.Sk)
			if err == nil {
				// the verifier has seen this signed accumulator under X's key
				seen := &revocation.SignedAccumulator{Data: sacc.Data, PKCounter: sacc.PKCounter}
				if _, err := seen.UnmarshalVerify(other.Pk); err != nil {
					panic(err)
				}
				bc := &gabi.Credential{}
				mustUnmarshal(mustJSON(hc.Cred), bc)
				bc.Pk = pk
				bc.NonRevocationWitness = &revocation.Witness{U: u, E: e, SignedAccumulator: sacc}
				var pd *gabi.ProofD
				if p := guard(func() { pd, err = bc.CreateDisclosureProof(nil, nil, true, sess.Context, sess.Nonce) }); p == "" && err == nil {
					r.Eval(1)
					v := verifyWire(mustJSON(gabi.ProofList{pd}), sess)
					if v.Accepted {
						r.Violate("C11:accepted-with-unauthentic-accumulator", map[string]any{"fault": "byzantine:accumulator-signed-by-other-issuer"},
							"a non-revocation proof against an accumulator made up by the holder and signed by another issuer (%s, same key counter) was accepted under %s", other.Name, key.Name)
					} else {
						r.Probe("foreign-signed-accumulator-rejected")
					}
				} else {
					r.Probe("byzantine-prover-refused")
				}
			}
		}
	}
	// Byzantine holder: degenerate witness element u = 0 (or a multiple of n) paired with the newest
	// accumulator through a prepared commitment: C_u becomes 0 and with it every power of C_u
	for di, deg := range []*big.Int{big.NewInt(0), new(big.Int).Set(pk.N), new(big.Int).Lsh(pk.N, 1)} {
		id := fmt.Sprintf("byzantine:degenerate-witness-u:%d", di)
		if !wanted(s.OnlyFault, id) {
			continue
		}
		r.Fault("byzantine-holder")
		hc := creds[ci]
		bc := &gabi.Credential{}
		mustUnmarshal(mustJSON(hc.Cred), bc)
		bc.Pk = pk
		if bc.NonRevocationWitness.Verify(pk) != nil || bc.NonrevPrepareCache() != nil {
			continue
		}
		// the accumulator must differ from the prepared one for the commitment to be refreshed: revoke somebody else
		o, err := revocation.RandomWitness(key.Sk, ra.Accs[ra.Head()])
		if err != nil {
			panic(err)
		}
		if err := ra.Revoke(o.E); err != nil {
			panic(err)
		}
		head := *ra.SAccs[ra.Head()]
		if _, err := head.UnmarshalVerify(pk); err != nil {
			panic(err)
		}
		fake := *bc.NonRevocationWitness
		fake.U = deg
		fake.SignedAccumulator = &head
		bc.NonRevocationWitness = &fake
		var pd *gabi.ProofD
		if p := guard(func() { pd, err = bc.CreateDisclosureProof(nil, nil, true, sess.Context, sess.Nonce) }); p != "" || err != nil {
			r.Probe("byzantine-prover-refused")
			continue
		}
		wb, merr := json.Marshal(gabi.ProofList{pd})
		if merr != nil {
			continue
		}
		r.Eval(1)
		v := verifyWire(wb, sess)
		if v.Accepted {
			r.Violate("C11:degenerate-commitment-accepted", map[string]any{"fault": id}, "a holder without a valid witness (u = %d*n) obtained acceptance of a non-revocation proof against accumulator %d: C_u is 0 modulo n", di, ra.Head())
		} else {
			r.Probe("degenerate-witness-rejected")
		}
	}
	// Byzantine holder whose credential carries, besides its (revoked) revocation attribute, a hidden attribute of
	// value 1: (u, e) = (nu, 1) is a "witness" for every accumulator (nu^1 = nu). It presents that pair as its
	// witness; the library's own prover then ties the non-revocation part to the attribute of value 1.
	for _, variant := range []string{"attribute-1", "secret-key-1"} {
		id := "byzantine:trivial-witness-for-" + variant
		if !wanted(s.OnlyFault, id) {
			continue
		}
		r.Fault("byzantine-holder")
		secret, attrs := newSecret(), []*big.Int{big.NewInt(1), randBits(w.hr, 100)}
		if variant == "secret-key-1" { // the holder chooses its own secret key; the issuer never sees it
			secret, attrs = big.NewInt(1), []*big.Int{randBits(w.hr, 90), randBits(w.hr, 100)}
		}
		bc, led := signRevCredential(key, ra, secret, attrs)
		if err := ra.Revoke(led.Witness); err != nil {
			panic(err)
		}
		head := *ra.SAccs[ra.Head()]
		if _, err := head.UnmarshalVerify(pk); err != nil {
			panic(err)
		}
		bc.NonRevocationWitness = &revocation.Witness{U: new(big.Int).Set(ra.Accs[ra.Head()].Nu), E: big.NewInt(1), SignedAccumulator: &head}
		var pl gabi.ProofList
		var err error
		if p := guard(func() {
			if variant == "attribute-1" {
				var pd *gabi.ProofD
				pd, err = bc.CreateDisclosureProof(nil, nil, true, sess.Context, sess.Nonce)
				pl = gabi.ProofList{pd}
				return
			}
			// the secret key's randomizer is handed to the builder by the caller: the holder reads the
			// non-revocation part's randomizer off a prepared builder (CreateProof(0) returns randomizers)
			// and hands in that one instead of the list's
			if err = bc.NonrevPrepareCache(); err != nil {
				return
			}
			var inner *gabi.DisclosureProofBuilder
			if inner, err = bc.CreateDisclosureProofBuilder(nil, nil, true); err != nil {
				return
			}
			probe := inner.CreateProof(big.NewInt(0)).(*gabi.ProofD)
			pl, err = gabi.ProofBuilderList{&ownSecretRandomizerBuilder{inner, probe.AResponses[0]}}.BuildProofList(sess.Context, sess.Nonce, sess.IsSig)
		}); p != "" || err != nil {
			r.Probe("byzantine-prover-refused")
			continue
		}
		r.Eval(1)
		v := verifyWire(mustJSON(pl), sess)
		if v.Accepted {
			r.Violate("C11:revoked-credential-accepted", map[string]any{"fault": id},
				"a credential whose revocation attribute was revoked in accumulator %d is accepted as non-revoked against that accumulator: the holder used (u, e) = (nu, 1) as witness and the credential's hidden %s as revocation attribute", ra.Head(), variant)
		} else {
			r.Probe("trivial-witness-rejected")
		}
	}
	// Byzantine holder with two credentials of this issuer: host A (revoked) and donor B (valid witness). It
	// builds A's proof with a non-revocation part computed from B's witness under the randomizer of A's own
	// revocation attribute, hashes B's commitments in A's place, and sends the part with an explicit "alpha"
	// response (honest provers leave it out; the verifier has to take it from the hidden attribute's response)
	if wanted(s.OnlyFault, "byzantine:donor-witness-explicit-alpha") {
		r.Fault("byzantine-holder")
		host, hled := signRevCredential(key, ra, newSecret(), []*big.Int{randBits(w.hr, 90)})
		donor, _ := signRevCredential(key, ra, newSecret(), []*big.Int{randBits(w.hr, 90)})
		if err := ra.Revoke(hled.Witness); err != nil {
			panic(err)
		}
		upd, err := ra.Update(ra.Head(), ra.Head())
		if err != nil {
			panic(err)
		}
		if err := donor.NonRevocationWitness.Update(pk, upd); err != nil {
			panic(err)
		}
		var pl gabi.ProofList
		if p := guard(func() {
			if err = host.NonrevPrepareCache(); err != nil {
				return
			}
			var inner *gabi.DisclosureProofBuilder
			if inner, err = host.CreateDisclosureProofBuilder(nil, nil, true); err != nil {
				return
			}
			var ri int
			if ri, err = host.NonrevIndex(); err != nil {
				return
			}
			rnd := inner.CreateProof(big.NewInt(0)).(*gabi.ProofD).AResponses[ri]
			db := &donorNonrevBuilder{inner: inner, pk: pk, witness: donor.NonRevocationWitness, rnd: rnd}
			pl, err = gabi.ProofBuilderList{db}.BuildProofList(sess.Context, sess.Nonce, sess.IsSig)
		}); p != "" || err != nil {
			r.Probe("byzantine-prover-refused")
		} else {
			r.Eval(1)
			v := verifyWire(mustJSON(pl), sess)
			if v.Accepted {
				r.Violate("C11:revoked-credential-accepted", map[string]any{"fault": "byzantine:donor-witness-explicit-alpha"},
					"a credential revoked in accumulator %d is accepted as non-revoked: its proof carries a non-revocation part made from another credential's witness, with an explicit alpha response", ra.Head())
			} else {
				r.Probe("donor-witness-rejected")
			}
		}
	}
	// Byzantine holder: stale (possibly revoked) witness paired with the newest accumulator through a prepared commitment
	if wanted(s.OnlyFault, "byzantine:stale-witness-new-accumulator") && provedIdx < uint64(ra.Head()) {
		r.Fault("byzantine-holder")
		hc := creds[ci]
		bc := &gabi.Credential{}
		mustUnmarshal(mustJSON(hc.Cred), bc)
		bc.Pk = pk
		if bc.NonRevocationWitness.Verify(pk) == nil && bc.NonrevPrepareCache() == nil {
			head := *ra.SAccs[ra.Head()]
			fake := *bc.NonRevocationWitness
			fake.SignedAccumulator = &head
			if _, err := head.UnmarshalVerify(pk); err == nil {
				bc.NonRevocationWitness = &fake
				var pd *gabi.ProofD
				var err error
				if p := guard(func() { pd, err = bc.CreateDisclosureProof(nil, nil, true, sess.Context, sess.Nonce) }); p == "" && err == nil {
					r.Eval(1)
					v := verifyWire(mustJSON(gabi.ProofList{pd}), sess)
					if v.Accepted {
						r.Violate("C11:stale-witness-accepted-against-newer-accumulator", map[string]any{"fault": "byzantine:stale-witness-new-accumulator"},
							"a witness valid for accumulator %d was accepted as non-revoked against accumulator %d", provedIdx, ra.Head())
					}
				} else {
					r.Probe("byzantine-prover-refused")
				}
			}
		}
	}
	_ = json.Marshal
}

func TestC11(t *testing.T) {
	RunProp(t, Prop[C11Spec]{ID: "C11", Draw: drawC11, Exec: execC11,
		Minimise: func(s C11Spec, v kernel.Violation) C11Spec {
			if f, ok := v.Details["fault"].(string); ok && f != "none" {
				s.OnlyFault = []string{f}
			}
			return s
		}})
}

var _ = big.NewInt

// donorNonrevBuilder is a Byzantine holder's wrapper around the honest builder of its (revoked) host
// credential: the non-revocation commitments and proof come from another credential's witness.
type donorNonrevBuilder struct {
	inner   *gabi.DisclosureProofBuilder
	pk      *gabikeys.PublicKey
	witness *revocation.Witness
	rnd     *big.Int
	commit  *revocation.ProofCommit
}

func (d *donorNonrevBuilder) Commit(rz map[string]*big.Int) ([]*big.Int, error) {
	list, err := d.inner.Commit(rz)
	if err != nil {
		return nil, err
	}
	comms, commit, err := revocation.NewProofCommit(d.pk, d.witness, d.rnd)
	if err != nil {
		return nil, err
	}
	if len(list) != 2+len(comms) {
		return nil, errors.New("unexpected contribution layout")
	}
	d.commit = commit
	return append(append([]*big.Int{}, list[:2]...), comms...), nil
}

func (d *donorNonrevBuilder) CreateProof(c *big.Int) gabi.Proof {
	pd := d.inner.CreateProof(c).(*gabi.ProofD)
	pd.NonRevocationProof = d.commit.BuildProof(c) // alpha response left in
	return pd
}
func (d *donorNonrevBuilder) PublicKey() *gabikeys.PublicKey             { return d.pk }
func (d *donorNonrevBuilder) SetProofPCommitment(*gabi.ProofPCommitment) {}

// ownSecretRandomizerBuilder is a Byzantine holder's wrapper around an honest disclosure builder: it
// ignores the secret-key randomizer the proof list hands out and uses one of its own choosing.
type ownSecretRandomizerBuilder struct {
	inner *gabi.DisclosureProofBuilder
	rnd   *big.Int
}

func (o *ownSecretRandomizerBuilder) Commit(map[string]*big.Int) ([]*big.Int, error) {
	return o.inner.Commit(map[string]*big.Int{"secretkey": o.rnd})
}
func (o *ownSecretRandomizerBuilder) CreateProof(c *big.Int) gabi.Proof {
	return o.inner.CreateProof(c)
}
func (o *ownSecretRandomizerBuilder) PublicKey() *gabikeys.PublicKey             { return o.inner.PublicKey() }
func (o *ownSecretRandomizerBuilder) SetProofPCommitment(*gabi.ProofPCommitment) {}
