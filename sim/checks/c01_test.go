package checks

import (
	"fmt"
	"testing"

	"github.com/privacybydesign/gabi"
	"github.com/privacybydesign/gabi/big"
	"github.com/privacybydesign/gabi/gabikeys"
	"pgregory.net/rapid"

	"verif/sim/kernel"
)

// C01 — disclosed attribute values are authentic.
//
// World: issuer signs a credential, an honest holder produces a disclosure
// proof, and a Byzantine holder / corrupting link sits on the one delivery to
// the verifier. Fault enumeration: the whole single-fault catalogue (and sampled
// pairs) is applied to that delivery, plus the algebraic deviations a holder who
// knows every secret of the credential and the group order can produce. Oracle:
// accepted => everything the verifier now believes is in the ledger.

type C01Spec struct {
	Key       string   `json:"key"`
	LibSeed   uint64   `json:"lib_seed"`
	ValSeed   uint64   `json:"val_seed"`
	Classes   []int    `json:"classes"` // value class per non-secret attribute
	Mask      int      `json:"mask"`    // disclosed subset
	IsSig     bool     `json:"is_sig"`
	Pairs     int      `json:"pairs"` // number of sampled pairwise alterations
	OnlyFault []string `json:"only_fault,omitempty"`
}

func drawKeyName(rt *rapid.T, label string) string {
	// swarm: mostly toy keys, sometimes production-size ones
	w := rapid.IntRange(0, 99).Draw(rt, label+"_w")
	bits := 256
	switch {
	case w >= 97 && thorough():
		bits = 2048
	case w >= 90:
		bits = 1024
	case w >= 84:
		// parameters whose message length differs from the hash length (Lm = 384, Lh = 256), as in the 4096-bit class
		if wide := kernel.KeyNamesWide(1024); len(wide) > 0 {
			return rapid.SampledFrom(wide).Draw(rt, label+"_wide")
		}
		bits = 512
	case w >= 70:
		bits = 512
	}
	return rapid.SampledFrom(kernel.KeyNames(bits)).Draw(rt, label)
}

func drawC01(rt *rapid.T) C01Spec {
	s := C01Spec{LibSeed: rapid.Uint64().Draw(rt, "libseed"), ValSeed: rapid.Uint64().Draw(rt, "valseed")}
	s.Key = drawKeyName(rt, "key")
	n := rapid.IntRange(1, 6).Draw(rt, "nattrs")
	for i := 0; i < n; i++ {
		s.Classes = append(s.Classes, rapid.IntRange(0, nValueClasses-1).Draw(rt, "class"))
	}
	s.Mask = rapid.IntRange(0, (1<<n)-1).Draw(rt, "mask")
	s.IsSig = rapid.Bool().Draw(rt, "issig")
	s.Pairs = rapid.IntRange(0, 40).Draw(rt, "pairs")
	return s
}

// checkAcceptedProofD is the acceptance oracle: what an accepted ProofD makes
// the verifier believe must be true in the ledger.
func checkAcceptedProofD(r *kernel.Run, fault string, p *gabi.ProofD, led *LedgerCred, pk *gabikeys.PublicKey) {
	det := func(extra ...string) map[string]any {
		m := map[string]any{"fault": fault}
		for i := 0; i+1 < len(extra); i += 2 {
			m[extra[i]] = extra[i+1]
		}
		return m
	}
	kind := kernel.Mutation{ID: fault}.ID
	if i := indexByte(kind, '@'); i >= 0 {
		kind = kind[:i]
	}
	for _, i := range sortedIntKeys(p.ADisclosed) {
		v := p.ADisclosed[i]
		if _, both := p.AResponses[i]; both {
			r.Violate("C01:accepted-index-both-disclosed-and-hidden", det("kind", kind), "fault %s: index %d is reported disclosed and hidden in an accepted proof", fault, i)
		}
		// A CL signature over (m_0..m_k) is also one over (m_0..m_k, 0, .., 0): an index beyond the
		// credential's last attribute carries the implicit value 0, which is inherent to the scheme.
		signed := big.NewInt(0)
		if i >= 0 && i < len(led.Ms) {
			signed = led.Ms[i]
		} else {
			r.Probe("disclosed-beyond-last-attribute")
		}
		if v == nil || v.Cmp(signed) != 0 {
			r.Violate("C01:accepted-unsigned-value", det("kind", kind), "fault %s: accepted proof reports attribute %d = %v, signed value is %v", fault, i, v, signed)
		}
	}
	maxA := new(big.Int).Sub(pow2(pk.Params.LmCommit+1), big.NewInt(1))
	for _, i := range sortedIntKeys(p.AResponses) {
		a := p.AResponses[i]
		if a == nil || a.Sign() < 0 || a.Cmp(maxA) > 0 {
			r.Violate("C01:accepted-out-of-range:a_response", det("kind", kind), "fault %s: accepted proof has a_responses[%d] outside [0, 2^(LmCommit+1)-1]", fault, i)
		}
	}
	maxE := new(big.Int).Sub(pow2(pk.Params.LeCommit+1), big.NewInt(1))
	if p.EResponse == nil || p.EResponse.Sign() < 0 || p.EResponse.Cmp(maxE) > 0 {
		r.Violate("C01:accepted-out-of-range:e_response", det("kind", kind), "fault %s: accepted proof has e_response outside [0, 2^(LeCommit+1)-1]", fault)
	}
}

func indexByte(s string, c byte) int {
	for i := 0; i < len(s); i++ {
		if s[i] == c {
			return i
		}
	}
	return -1
}

func wanted(only []string, id string) bool {
	if len(only) == 0 {
		return true
	}
	for _, o := range only {
		if o == id {
			return true
		}
	}
	return false
}

func execC01(r *kernel.Run, s C01Spec) {
	kernel.SeedLibrary(r.T, s.LibSeed)
	key := kernel.GetKey(s.Key)
	pk := key.Pk
	hr := hrand(s.ValSeed, 1)
	var attrs []*big.Int
	for _, c := range s.Classes {
		attrs = append(attrs, attrValue(c, pk.Params.Lm, hr))
	}
	cred, led := signCredential(key, newSecret(), attrs)
	context, nonce := randBits(hr, 200), randBits(hr, 80)
	disclosed := maskToIndices(s.Mask, len(attrs))
	sess := Session{Context: context, Nonce: nonce, IsSig: s.IsSig, Keys: []*gabikeys.PublicKey{pk}}
	r.Logf("key=%s attrs=%d disclosed=%v issig=%v", s.Key, len(attrs), disclosed, s.IsSig)

	build := func() *gabi.ProofD {
		bl := gabi.ProofBuilderList{mustBuilder(cred.CreateDisclosureProofBuilder(disclosed, nil, false))}
		pl, err := bl.BuildProofList(context, nonce, s.IsSig)
		if err != nil {
			panic(err)
		}
		return pl[0].(*gabi.ProofD)
	}
	honest := build()
	wire := mustJSON(gabi.ProofList{honest})
	r.Eval(1)
	if v := verifyWire(wire, sess); !v.Accepted {
		r.Violate("C01:honest-rejected", map[string]any{"panic": v.Panic != ""}, "honest disclosure proof rejected (decode=%v panic=%s)", v.DecodeErr, v.Panic)
		return
	} else {
		checkAcceptedProofD(r, "none", v.List[0].(*gabi.ProofD), led, pk)
	}
	r.Distinct(fmt.Sprintf("shape classes=%v mask=%d bits=%d sig=%v", s.Classes, s.Mask, key.Bits, s.IsSig))

	deliver := func(id string, w []byte) {
		if !wanted(s.OnlyFault, id) {
			return
		}
		r.Eval(1)
		r.Fault("tamper-field")
		v := verifyWireTwice(w, sess)
		checkReverify(r, "C01", id, v)
		if v.Panic != "" {
			r.Probe("receiver-panic(judged by C08)")
		}
		if v.Accepted {
			r.Probe("tampered-accepted")
			r.Logf("accepted %s", id)
			if len(v.List) != 1 {
				r.Violate("C01:accepted-wrong-count", map[string]any{"fault": id}, "fault %s: accepted list of %d proofs for one key", id, len(v.List))
				return
			}
			if pd, ok := v.List[0].(*gabi.ProofD); ok {
				checkAcceptedProofD(r, id, pd, led, pk)
			} else {
				r.Violate("C01:accepted-not-a-disclosure-proof", map[string]any{"fault": id}, "fault %s: accepted proof is not a ProofD", id)
			}
		}
	}

	// (a) every single path-addressed alteration of the delivered message
	tree := kernel.MustDecode(wire)
	nR := len(pk.R)
	opts := kernel.MutOpts{Values: true, Structural: true, Rekeys: []string{"-1", "0", "1", fmt.Sprint(len(attrs)), fmt.Sprint(len(attrs) + 1), fmt.Sprint(nR), "2147483648"}}
	muts := kernel.Mutations(tree, opts)
	for _, m := range muts {
		deliver(m.ID, m.Apply(tree))
	}
	// (b) sampled pairs
	for k := 0; k < s.Pairs && len(muts) > 1; k++ {
		a, b := muts[hr.IntN(len(muts))], muts[hr.IntN(len(muts))]
		id := "pair:" + a.ID + "+" + b.ID
		if !wanted(s.OnlyFault, id) {
			continue
		}
		t2 := b.Do(a.Do(kernel.Clone(tree)))
		deliver(id, kernel.Encode(t2))
	}

	// (c) algebraic deviations of a holder who knows all secrets and the group order
	order := key.Sk.Order
	clone := func() *gabi.ProofD {
		var pl gabi.ProofList
		mustUnmarshal(wire, &pl)
		return pl[0].(*gabi.ProofD)
	}
	deliverObj := func(id string, p *gabi.ProofD) {
		if !wanted(s.OnlyFault, id) {
			return
		}
		r.Eval(1)
		r.Fault("tamper-algebra")
		v := verifyObj(gabi.ProofList{p}, sess)
		if v.Panic != "" {
			r.Probe("receiver-panic(judged by C08)")
		}
		if v.Accepted {
			r.Probe("algebra-accepted")
			r.Logf("accepted %s", id)
			checkAcceptedProofD(r, id, p, led, pk)
		}
	}
	c := honest.C
	for _, i := range sortedIntKeys(honest.AResponses) {
		if i == 0 {
			continue
		}
		m := led.Ms[i]
		if m.BitLen() > int(pk.Params.Lm) {
			continue // hashed values: the exponent is the hash, a split needs its preimage structure
		}
		// split m_i into disclosed x and hidden remainder m_i - x
		xs := []*big.Int{big.NewInt(0), big.NewInt(1), new(big.Int).Sub(m, big.NewInt(1)), new(big.Int).Add(m, big.NewInt(1)), randBits(hr, 40)}
		for xi, x := range xs {
			if x.Sign() < 0 {
				continue
			}
			p := clone()
			resp := new(big.Int).Sub(p.AResponses[i], new(big.Int).Mul(c, x))
			if resp.Sign() < 0 {
				continue
			}
			p.ADisclosed[i] = x
			p.AResponses[i] = resp
			deliverObj(fmt.Sprintf("split:x%d@%d", xi, i), p)
			// variant: the hidden remainder is dropped, x replaces the value outright
			p2 := clone()
			delete(p2.AResponses, i)
			p2.ADisclosed[i] = x
			deliverObj(fmt.Sprintf("replace:x%d@%d", xi, i), p2)
		}
	}
	// responses shifted by multiples of the group order to both sides of the accept/reject boundary
	shift := func(name string, get func(p *gabi.ProofD) *big.Int, set func(p *gabi.ProofD, v *big.Int), max *big.Int) {
		v0 := get(honest)
		// largest v0+k*order <= max, and the next one above it
		k := new(big.Int).Div(new(big.Int).Sub(max, v0), order)
		in := new(big.Int).Add(v0, new(big.Int).Mul(k, order))
		out := new(big.Int).Add(in, order)
		neg := new(big.Int).Sub(v0, new(big.Int).Mul(order, new(big.Int).Add(new(big.Int).Div(v0, order), big.NewInt(1))))
		for _, c := range []struct {
			n string
			v *big.Int
		}{{"inside", in}, {"outside", out}, {"negative", neg}} {
			p := clone()
			set(p, c.v)
			deliverObj("shift:"+name+":"+c.n, p)
		}
	}
	maxA := new(big.Int).Sub(pow2(pk.Params.LmCommit+1), big.NewInt(1))
	maxE := new(big.Int).Sub(pow2(pk.Params.LeCommit+1), big.NewInt(1))
	for _, i := range sortedIntKeys(honest.AResponses) {
		ii := i
		shift(fmt.Sprintf("a%d", i), func(p *gabi.ProofD) *big.Int { return p.AResponses[ii] }, func(p *gabi.ProofD, v *big.Int) { p.AResponses[ii] = v }, maxA)
	}
	shift("e", func(p *gabi.ProofD) *big.Int { return p.EResponse }, func(p *gabi.ProofD, v *big.Int) { p.EResponse = v }, maxE)
	shift("v", func(p *gabi.ProofD) *big.Int { return p.VResponse }, func(p *gabi.ProofD, v *big.Int) { p.VResponse = v }, new(big.Int).Sub(pow2(pk.Params.LvCommit+1), big.NewInt(1)))
	// a disclosed value replaced by a value from another credential of the same issuer
	other, _ := signCredential(key, newSecret(), bigs(11, 22, 33, 44, 55, 66)[:len(attrs)])
	for _, i := range sortedIntKeys(honest.ADisclosed) {
		p := clone()
		p.ADisclosed[i] = other.Attributes[i]
		deliverObj(fmt.Sprintf("foreign-value@%d", i), p)
	}
	r.Sample(map[string]any{"spec": s, "mutations": len(muts)})
}

func mustBuilder(b *gabi.DisclosureProofBuilder, err error) *gabi.DisclosureProofBuilder {
	if err != nil {
		panic(err)
	}
	return b
}

func TestC01(t *testing.T) {
	RunProp(t, Prop[C01Spec]{ID: "C01", Draw: drawC01, Exec: execC01,
		Minimise: func(s C01Spec, v kernel.Violation) C01Spec {
			if f, ok := v.Details["fault"].(string); ok && f != "none" {
				s.OnlyFault = []string{f} // Pairs stays: later harness draws depend on it
			}
			return s
		}})
}
