package checks

import (
	"encoding/json"
	"fmt"
	"testing"

	"github.com/privacybydesign/gabi"
	"github.com/privacybydesign/gabi/big"
	"github.com/privacybydesign/gabi/gabikeys"
	"github.com/privacybydesign/gabi/rangeproof"
	"pgregory.net/rapid"

	"verif/sim/kernel"
)

// C08 — verifying untrusted proofs never panics.
//
// World: honest holders produce proof lists of every shape the protocol knows;
// a corrupting transport applies the structural tamper catalogue (path
// addressed) and a few raw byte faults; every receiving entry point runs under
// recover. A panic is a violation named by the innermost gabi frame; an accepted
// list that is malformed by the property's own definition is one too.

type C08Spec struct {
	Key       string   `json:"key"`
	LibSeed   uint64   `json:"lib_seed"`
	ValSeed   uint64   `json:"val_seed"`
	Shape     int      `json:"shape"`
	NAttrs    int      `json:"n_attrs"`
	Mask      int      `json:"mask"`
	Pairs     int      `json:"pairs"`
	OnlyFault []string `json:"only_fault,omitempty"`
}

const c08Shapes = 8

func drawC08(rt *rapid.T) C08Spec {
	s := C08Spec{LibSeed: rapid.Uint64().Draw(rt, "libseed"), ValSeed: rapid.Uint64().Draw(rt, "valseed")}
	s.Key = rapid.SampledFrom(kernel.KeyNames(256)).Draw(rt, "key")
	s.Shape = rapid.IntRange(0, c08Shapes-1).Draw(rt, "shape")
	s.NAttrs = rapid.IntRange(2, 5).Draw(rt, "nattrs")
	s.Mask = rapid.IntRange(0, (1<<s.NAttrs)-1).Draw(rt, "mask")
	s.Pairs = rapid.IntRange(0, 200).Draw(rt, "pairs")
	return s
}

// malformed reports why an (accepted) list is malformed in the sense of C08.
func malformedProof(p gabi.Proof, pk *gabikeys.PublicKey) string {
	n := len(pk.R)
	switch x := p.(type) {
	case *gabi.ProofD:
		if x.C == nil || x.A == nil || x.EResponse == nil || x.VResponse == nil {
			return "missing mandatory field"
		}
		for i, v := range x.AResponses {
			if i < 0 || i >= n {
				return "hidden index outside the key's bases"
			}
			if v == nil {
				return "null response"
			}
		}
		for i, v := range x.ADisclosed {
			if i < 0 || i >= n {
				return "disclosed index outside the key's bases"
			}
			if v == nil {
				return "null disclosed value"
			}
		}
		if x.NonRevocationProof != nil {
			np := x.NonRevocationProof
			if np.Cr == nil || np.Cu == nil || np.SignedAccumulator == nil {
				return "partial non-revocation proof"
			}
			for _, k := range []string{"beta", "delta", "epsilon", "zeta"} {
				if np.Responses[k] == nil {
					return "partial non-revocation proof"
				}
			}
		}
		for i, rps := range x.RangeProofs {
			if _, hidden := x.AResponses[i]; !hidden {
				return "range proof on an index that is not hidden"
			}
			for _, rp := range rps {
				if rp == nil {
					return "null range proof"
				}
			}
		}
	case *gabi.ProofU:
		if x.U == nil || x.C == nil || x.VPrimeResponse == nil || x.SResponse == nil {
			return "missing mandatory field"
		}
		for i, v := range x.MUserResponses {
			if i < 0 || i >= n {
				return "blind index outside the key's bases"
			}
			if v == nil {
				return "null response"
			}
		}
	case nil:
		return "null proof"
	}
	return ""
}

func execC08(r *kernel.Run, s C08Spec) {
	if p := kernel.InBubble(r.T, func() { execC08Bubble(r, s) }); p != nil {
		panic(p)
	}
}

type c08Seed struct {
	name string
	wire []byte
	sess Session
	// entry is the receiving handler; it returns acceptance and the decoded list
	issuance bool
}

func execC08Bubble(r *kernel.Run, s C08Spec) {
	kernel.SeedLibrary(r.T, s.LibSeed)
	key := kernel.GetKey(s.Key)
	pk := key.Pk
	hr := hrand(s.ValSeed, 8)
	ra, err := kernel.NewRevAuthority(key)
	if err != nil {
		panic(err)
	}
	var attrs []*big.Int
	for i := 0; i < s.NAttrs; i++ {
		attrs = append(attrs, big.NewInt(int64(1000+hr.IntN(100000))))
	}
	secret := newSecret()
	context, nonce := randBits(hr, 200), randBits(hr, 80)
	wantNonrev := s.Shape == 1 || s.Shape == 3 || s.Shape == 6
	wantRange := s.Shape == 2 || s.Shape == 3 || s.Shape == 6
	var cred *gabi.Credential
	if wantNonrev {
		cred, _ = signRevCredential(key, ra, secret, attrs)
	} else {
		cred, _ = signCredential(key, secret, attrs)
	}
	disclosed := maskToIndices(s.Mask, len(attrs)) // never the witness attribute (last)
	var stmts map[int][]*rangeproof.Statement
	if wantRange {
		stmts = map[int][]*rangeproof.Statement{}
		n := 0
		for i := 1; i <= len(attrs) && n < 2; i++ {
			hidden := true
			for _, d := range disclosed {
				if d == i {
					hidden = false
				}
			}
			if !hidden {
				continue
			}
			ge, _ := rangeproof.NewStatement(rangeproof.GreaterOrEqual, big.NewInt(500))
			le, _ := rangeproof.NewStatement(rangeproof.LesserOrEqual, big.NewInt(1<<40))
			stmts[i] = []*rangeproof.Statement{ge}
			if n == 0 {
				stmts[i] = append(stmts[i], le)
			}
			n++
		}
		if n == 0 {
			disclosed = nil
			ge, _ := rangeproof.NewStatement(rangeproof.GreaterOrEqual, big.NewInt(500))
			stmts[1] = []*rangeproof.Statement{ge}
		}
	}
	dBuilder := func() gabi.ProofBuilder {
		b, err := cred.CreateDisclosureProofBuilder(disclosed, stmts, wantNonrev)
		if err != nil {
			panic(err)
		}
		return b
	}
	uBuilder := func(blind []int) *gabi.CredentialBuilder {
		b, err := gabi.NewCredentialBuilder(pk, context, secret, randBits(hr, 80), nil, blind)
		if err != nil {
			panic(err)
		}
		return b
	}

	var seed c08Seed
	seed.sess = Session{Context: context, Nonce: nonce, Keys: []*gabikeys.PublicKey{pk}}
	switch s.Shape {
	case 0, 1, 2, 3:
		pl, err := gabi.ProofBuilderList{dBuilder()}.BuildProofList(context, nonce, false)
		if err != nil {
			panic(err)
		}
		seed.name, seed.wire = fmt.Sprintf("proofd(nonrev=%v,range=%v)", wantNonrev, wantRange), mustJSON(pl)
	case 4:
		pl, err := gabi.ProofBuilderList{uBuilder([]int{1, 2})}.BuildProofList(context, nonce, false)
		if err != nil {
			panic(err)
		}
		seed.name, seed.wire = "proofu(blind)", mustJSON(pl)
	case 5, 6:
		pl, err := gabi.ProofBuilderList{dBuilder(), uBuilder(nil)}.BuildProofList(context, nonce, s.Shape == 6)
		if err != nil {
			panic(err)
		}
		seed.sess.Keys = []*gabikeys.PublicKey{pk, pk}
		seed.sess.IsSig = s.Shape == 6
		seed.name, seed.wire = "proofd+proofu", mustJSON(pl)
	case 7:
		b := uBuilder([]int{0})
		msg, err := b.CommitToSecretAndProve(nonce)
		if err != nil {
			panic(err)
		}
		seed.name, seed.wire, seed.issuance = "IssueCommitmentMessage", mustJSON(msg), true
	}
	r.Logf("seed %s key=%s", seed.name, s.Key)

	// the receiving handlers
	receive := func(id string, wire []byte) {
		if !wanted(s.OnlyFault, id) {
			return
		}
		r.Eval(1)
		var list gabi.ProofList
		accepted := false
		msg, frame := guardFrame(func() {
			if seed.issuance {
				var m gabi.IssueCommitmentMessage
				if err := json.Unmarshal(wire, &m); err != nil {
					r.Probe("decode-error")
					return
				}
				list = m.Proofs
				// the issuer shell does what IssueSignature's doc comment demands
				accepted = m.Proofs.Verify(seed.sess.Keys, context, nonce, false, nil)
				return
			}
			if err := json.Unmarshal(wire, &list); err != nil {
				r.Probe("decode-error")
				return
			}
			accepted = list.Verify(seed.sess.Keys, seed.sess.Context, seed.sess.Nonce, seed.sess.IsSig, nil)
			// the single-proof entry points see the same untrusted objects
			for i, p := range list {
				if i >= len(seed.sess.Keys) {
					break
				}
				switch x := p.(type) {
				case *gabi.ProofD:
					x.Verify(seed.sess.Keys[i], context, nonce, seed.sess.IsSig)
				case *gabi.ProofU:
					x.Verify(seed.sess.Keys[i], context, nonce)
				}
			}
		})
		if msg != "" {
			r.Violate("C08:panic:"+frame, map[string]any{"fault": id, "seed": seed.name}, "seed %s fault %s: receiver panics in %s: %s", seed.name, id, frame, msg)
			return
		}
		if accepted {
			r.Probe("mutant-accepted")
			for i, p := range list {
				if i >= len(seed.sess.Keys) {
					break
				}
				if why := malformedProof(p, seed.sess.Keys[i]); why != "" {
					r.Violate("C08:malformed-accepted", map[string]any{"fault": id, "seed": seed.name, "why": why}, "seed %s fault %s: accepted although malformed: %s", seed.name, id, why)
				}
			}
		} else {
			r.Probe("mutant-rejected")
		}
	}

	receive("none", seed.wire)
	// the same honest bytes verified against a well-formed key that lacks the optional revocation part
	if wanted(s.OnlyFault, "key:without-revocation-part") {
		bare := *pk
		bare.G, bare.H, bare.ECDSA, bare.ECDSAString = nil, nil, nil, ""
		saved := seed.sess.Keys
		seed.sess.Keys = make([]*gabikeys.PublicKey, len(saved))
		for i := range saved {
			seed.sess.Keys[i] = &bare
		}
		r.Fault("wrong-key-delivery")
		receive("key:without-revocation-part", seed.wire)
		seed.sess.Keys = saved
	}
	tree := kernel.MustDecode(seed.wire)
	nR := len(pk.R)
	opts := kernel.MutOpts{Values: true, Structural: true, Rekeys: []string{"-1", "0", "1", fmt.Sprint(nR - 1), fmt.Sprint(nR), "2147483648", "99999999999999999999"}}
	muts := kernel.Mutations(tree, opts)
	for _, m := range muts {
		r.Fault("tamper-field:" + kindOf(m.Kind))
		receive(m.ID, m.Apply(tree))
	}
	for k := 0; k < s.Pairs && len(muts) > 1; k++ {
		a, b := muts[hr.IntN(len(muts))], muts[hr.IntN(len(muts))]
		id := "pair:" + a.ID + "+" + b.ID
		r.Fault("tamper-field:pair")
		receive(id, kernel.Encode(b.Do(a.Do(kernel.Clone(tree)))))
	}
	// raw byte faults: truncation, one flipped byte, inserted garbage
	for k := 0; k < 24; k++ {
		pos := hr.IntN(len(seed.wire))
		w := append([]byte{}, seed.wire...)
		var id string
		switch k % 3 {
		case 0:
			w = w[:pos]
			id = fmt.Sprintf("bytes:truncate@%d", pos)
		case 1:
			w[pos] ^= byte(1 << uint(hr.IntN(8)))
			id = fmt.Sprintf("bytes:flip@%d", pos)
		case 2:
			w = append(append(append([]byte{}, w[:pos]...), []byte(`{"x":[null]}`)...), w[pos:]...)
			id = fmt.Sprintf("bytes:insert@%d", pos)
		}
		r.Fault("tamper-bytes")
		receive(id, w)
	}
	r.Distinct(fmt.Sprintf("%s mask=%d n=%d", seed.name, s.Mask, s.NAttrs))
	r.Sample(map[string]any{"seed_shape": seed.name, "mutations": len(muts), "spec": s})
}

func kindOf(k string) string {
	if i := indexByte(k, ':'); i >= 0 {
		return k[:i]
	}
	return k
}

func TestC08(t *testing.T) {
	RunProp(t, Prop[C08Spec]{ID: "C08", Draw: drawC08, Exec: execC08,
		Minimise: func(s C08Spec, v kernel.Violation) C08Spec {
			if f, ok := v.Details["fault"].(string); ok && f != "none" {
				s.OnlyFault = []string{f}
			}
			return s
		}})
}
