package checks

import (
	"bytes"
	"encoding/json"
	"fmt"
	"strings"
	"testing"

	"github.com/privacybydesign/gabi"
	"github.com/privacybydesign/gabi/big"
	"github.com/privacybydesign/gabi/gabikeys"
	"github.com/privacybydesign/gabi/rangeproof"
	"pgregory.net/rapid"

	"verif/sim/kernel"
)

// C14 — keyshare protocol: joint proofs complete, server bound to its commitment.
//
// World: user, keyshare server and verifier shells around the real two-round-trip
// exchange (commitment request -> server commitments -> response request ->
// ProofP), every message as JSON. The server shell keeps its randomizer and the
// commitment request between the two round trips (volatile) and answers once.
// Fault enumeration on the second user message relative to the first; replay of
// another session's second message; server crash between the round trips.

type c14Builder struct {
	Issuance bool  `json:"issuance"`
	Key      int   `json:"key"`
	Nonrev   bool  `json:"nonrev"`
	Range    bool  `json:"range"`
	Blind    []int `json:"blind,omitempty"`
}

type C14Spec struct {
	Keys        []string     `json:"keys"`
	Participate []bool       `json:"participate"` // per key: does the keyshare server take part for it
	LibSeed     uint64       `json:"lib_seed"`
	ValSeed     uint64       `json:"val_seed"`
	Builders    []c14Builder `json:"builders"`
	IsSig       bool         `json:"is_sig"`
	ContextOne  bool         `json:"context_one"` // context = 1 (the value the server assumes when none is sent)
	SameIssuer  bool         `json:"same_issuer"` // all keys carry one issuer name and differ only in their counter (rotated keys)
	OnlyFault   []string     `json:"only_fault,omitempty"`
}

func drawC14(rt *rapid.T) C14Spec {
	s := C14Spec{LibSeed: rapid.Uint64().Draw(rt, "libseed"), ValSeed: rapid.Uint64().Draw(rt, "valseed")}
	nk := rapid.IntRange(1, 3).Draw(rt, "nkeys")
	pool := append(kernel.KeyNamesZ128(), kernel.KeyNames(1024)...)
	if thorough() {
		pool = append(pool, kernel.KeyNames(2048)...)
	}
	used := map[string]bool{}
	for i := 0; i < nk; i++ {
		k := rapid.SampledFrom(pool).Draw(rt, "key")
		if used[k] {
			continue
		}
		used[k] = true
		s.Keys = append(s.Keys, k)
		s.Participate = append(s.Participate, rapid.IntRange(0, 3).Draw(rt, "participate") != 0)
	}
	nb := rapid.IntRange(1, 4).Draw(rt, "nbuilders")
	for i := 0; i < nb; i++ {
		b := c14Builder{Key: rapid.IntRange(0, len(s.Keys)-1).Draw(rt, "bkey"), Issuance: rapid.IntRange(0, 2).Draw(rt, "issuance") == 0}
		if !b.Issuance {
			b.Nonrev = rapid.IntRange(0, 3).Draw(rt, "nonrev") == 0
			b.Range = rapid.IntRange(0, 3).Draw(rt, "range") == 0
		} else if rapid.Bool().Draw(rt, "hasblind") {
			b.Blind = []int{rapid.IntRange(0, 2).Draw(rt, "blind")}
		}
		s.Builders = append(s.Builders, b)
	}
	s.IsSig = rapid.Bool().Draw(rt, "issig")
	s.ContextOne = rapid.IntRange(0, 3).Draw(rt, "ctx1") == 0
	s.SameIssuer = rapid.IntRange(0, 2).Draw(rt, "sameissuer") == 0
	return s
}

// kssServer is the keyshare-server shell.
type kssServer struct {
	secret *big.Int
	keys   map[string]*gabikeys.PublicKey
	// volatile session state
	randomizer *big.Int
	commReq    *gabi.KeyshareCommitmentRequest
}

func (k *kssServer) round1(wire []byte, builderKeys []*gabikeys.PublicKey) ([]byte, error) {
	var req gabi.KeyshareCommitmentRequest
	if err := json.Unmarshal(wire, &req); err != nil {
		return nil, err
	}
	rnd, comms, err := gabi.NewKeyshareCommitments(k.secret, builderKeys)
	if err != nil {
		return nil, err
	}
	k.randomizer, k.commReq = rnd, &req
	return json.Marshal(comms)
}

func (k *kssServer) round2(wire []byte) ([]byte, error) {
	if k.randomizer == nil || k.commReq == nil {
		return nil, fmt.Errorf("no session")
	}
	var req gabi.KeyshareResponseRequest[string]
	if err := json.Unmarshal(wire, &req); err != nil {
		return nil, err
	}
	rnd, cr := k.randomizer, *k.commReq
	k.randomizer, k.commReq = nil, nil // one answer per commitment
	p, err := gabi.KeyshareResponse(k.secret, rnd, cr, req, k.keys)
	if err != nil {
		return nil, err
	}
	if p == nil {
		return nil, fmt.Errorf("nil ProofP without error")
	}
	return json.Marshal(p)
}

func (k *kssServer) crash() { k.randomizer, k.commReq = nil, nil }

// c14Session is the user side of one exchange.
type c14Session struct {
	builders    gabi.ProofBuilderList
	builderKeys []*gabikeys.PublicKey
	part        []bool // per builder: keyshare server participates
	randomizers map[string]*big.Int
	hashInput   []gabi.KeyshareUserChallengeInput[string]
	challenge   *big.Int
	wire1       []byte
	wire3       []byte
	sess        Session
}

func keyshareCred(w *World, key *kernel.Key, userSecret, kssSecret *big.Int, attrs []*big.Int, nonrev bool) *gabi.Credential {
	pk := key.Pk
	var kssP *big.Int
	if kssSecret != nil {
		kssP = new(big.Int).Exp(pk.R[0], kssSecret, pk.N)
	}
	ctx := big.NewInt(1)
	nonce1, nonce2 := randBits(w.hr, 80), randBits(w.hr, 80)
	cb, err := gabi.NewCredentialBuilder(pk, ctx, userSecret, nonce2, kssP, nil)
	if err != nil {
		panic(err)
	}
	cm, err := cb.CommitToSecretAndProve(nonce1)
	if err != nil {
		panic(err)
	}
	var wit = (*kernel.RevAuthority)(nil)
	all := append([]*big.Int{}, attrs...)
	issuer := gabi.NewIssuer(key.Sk, pk, ctx)
	if nonrev {
		wit = w.RA(key)
		wt, err := wit.NewWitness(wit.Head())
		if err != nil {
			panic(err)
		}
		all = append(all, wt.E)
		sm, err := issuer.IssueSignature(cm.U, all, wt, nonce2, nil)
		if err != nil {
			panic(err)
		}
		cred, err := cb.ConstructCredential(sm, all)
		if err != nil {
			panic(fmt.Sprintf("cannot issue keyshare credential: %v", err))
		}
		return cred
	}
	sm, err := issuer.IssueSignature(cm.U, all, nil, nonce2, nil)
	if err != nil {
		panic(err)
	}
	cred, err := cb.ConstructCredential(sm, all)
	if err != nil {
		panic(fmt.Sprintf("cannot issue keyshare credential: %v", err))
	}
	return cred
}

func execC14(r *kernel.Run, s C14Spec) {
	if p := kernel.InBubble(r.T, func() { execC14Bubble(r, s) }); p != nil {
		panic(p)
	}
}

func execC14Bubble(r *kernel.Run, s C14Spec) {
	kernel.SeedLibrary(r.T, s.LibSeed)
	w := newWorld(r, s.ValSeed)
	var keys []*kernel.Key
	counters := map[uint]bool{}
	for _, n := range s.Keys {
		k := kernel.GetKey(n)
		if s.SameIssuer && !counters[k.Pk.Counter] {
			// an issuer that rotated its key: same issuer name, different counters (private copies, the
			// shared key objects are never modified)
			counters[k.Pk.Counter] = true
			pkc := *k.Pk
			pkc.Issuer = "rotating-issuer"
			k = &kernel.Key{Name: k.Name, Bits: k.Bits, Z128: k.Z128, Pk: &pkc, Sk: k.Sk}
		}
		keys = append(keys, k)
	}
	userSecret, err := gabi.NewKeyshareSecret()
	if err != nil {
		panic(err)
	}
	kssSecret, err := gabi.NewKeyshareSecret()
	if err != nil {
		panic(err)
	}
	server := &kssServer{secret: kssSecret, keys: map[string]*gabikeys.PublicKey{}}
	partKeys := map[string]*gabikeys.PublicKey{}
	for i, k := range keys {
		if s.Participate[i] {
			server.keys[k.Name] = k.Pk
			partKeys[k.Name] = k.Pk
		}
	}
	context := big.NewInt(1)
	if !s.ContextOne {
		// mostly a random context; sometimes another small one (0 is a value, not "absent")
		switch w.hr.IntN(6) {
		case 0:
			context = big.NewInt(0)
		case 1:
			context = big.NewInt(2)
		default:
			context = randBits(w.hr, 200)
		}
	}
	r.Logf("keys=%v participate=%v builders=%d sig=%v ctx1=%v", s.Keys, s.Participate, len(s.Builders), s.IsSig, s.ContextOne)

	// the user's wallet and builder list for a session
	mkSession := func() *c14Session {
		cs := &c14Session{sess: Session{Context: context, Nonce: randBits(w.hr, 80), IsSig: s.IsSig}}
		for _, b := range s.Builders {
			key := keys[b.Key]
			part := s.Participate[b.Key]
			var ks *big.Int
			if part {
				ks = kssSecret
			}
			cs.part = append(cs.part, part)
			cs.builderKeys = append(cs.builderKeys, key.Pk)
			cs.sess.Keys = append(cs.sess.Keys, key.Pk)
			label := ""
			if part {
				label = "kss"
			}
			cs.sess.Labels = append(cs.sess.Labels, label)
			if b.Issuance {
				var kssP *big.Int
				if part {
					kssP = new(big.Int).Exp(key.Pk.R[0], kssSecret, key.Pk.N)
				}
				cb, err := gabi.NewCredentialBuilder(key.Pk, context, userSecret, randBits(w.hr, 80), kssP, b.Blind)
				if err != nil {
					panic(err)
				}
				cs.builders = append(cs.builders, cb)
				continue
			}
			cred := keyshareCred(w, key, userSecret, ks, bigs(int64(1000+w.hr.IntN(1000)), 2000, 3000), b.Nonrev)
			var stmts map[int][]*rangeproof.Statement
			if b.Range {
				// both kinds of statement: what fixes the statement is part of the challenge input, which
				// travels to the keyshare server
				ge, _ := rangeproof.NewStatement(rangeproof.GreaterOrEqual, big.NewInt(1))
				le, _ := rangeproof.NewStatement(rangeproof.LesserOrEqual, big.NewInt(1<<40))
				stmts = map[int][]*rangeproof.Statement{2: {ge}, 3: {le}}
				if w.hr.IntN(2) == 0 {
					stmts = map[int][]*rangeproof.Statement{2: {le}}
				}
			}
			db, err := cred.CreateDisclosureProofBuilder([]int{1}, stmts, b.Nonrev)
			if err != nil {
				panic(err)
			}
			cs.builders = append(cs.builders, db)
		}
		return cs
	}

	// user side of the exchange; returns the proof list (or the stage at which it stopped)
	userRound1 := func(cs *c14Session) error {
		rz, err := gabi.NewProofRandomizers()
		if err != nil {
			return err
		}
		cs.randomizers = rz
		cr, hi, err := gabi.KeyshareUserCommitmentRequest(cs.builders, rz, partKeys)
		if err != nil {
			return err
		}
		cs.hashInput = hi
		cs.wire1 = mustJSON(cr)
		return nil
	}
	userRound2 := func(cs *c14Session, wire2 []byte) error {
		var comms []*gabi.ProofPCommitment
		if err := json.Unmarshal(wire2, &comms); err != nil {
			return err
		}
		if len(comms) != len(cs.builders) {
			return fmt.Errorf("wrong number of commitments")
		}
		for i, b := range cs.builders {
			if cs.part[i] {
				b.SetProofPCommitment(comms[i])
			}
		}
		rr, ch, err := gabi.KeyshareUserResponseRequest(cs.builders, cs.randomizers, cs.hashInput, cs.sess.Context, cs.sess.Nonce, cs.sess.IsSig)
		if err != nil {
			return err
		}
		cs.challenge = new(big.Int).Set(ch)
		w3, merr := json.Marshal(rr)
		if merr != nil {
			return fmt.Errorf("the request to the keyshare server cannot be encoded: %v", merr)
		}
		cs.wire3 = w3
		return nil
	}
	finish := func(cs *c14Session, wire4 []byte) (gabi.ProofList, *gabi.ProofP, error) {
		var pp gabi.ProofP
		if err := json.Unmarshal(wire4, &pp); err != nil {
			return nil, nil, err
		}
		pps := make([]*gabi.ProofP, len(cs.builders))
		for i := range cs.builders {
			if cs.part[i] {
				cp := pp
				cp.C, cp.SResponse = new(big.Int).Set(pp.C), new(big.Int).Set(pp.SResponse)
				pps[i] = &cp
			}
		}
		pl, err := cs.builders.BuildDistributedProofList(new(big.Int).Set(cs.challenge), pps)
		return pl, &pp, err
	}
	anyPart := false
	for _, b := range s.Builders {
		anyPart = anyPart || s.Participate[b.Key]
	}

	// ---- fault-free exchange (strict oracle)
	a := mkSession()
	r.Eval(1)
	if err := userRound1(a); err != nil {
		r.Violate("C14:honest-exchange-failed:user-round1", nil, "%v", err)
		return
	}
	wire2, err := server.round1(a.wire1, a.builderKeys)
	if err != nil {
		r.Violate("C14:honest-exchange-failed:server-round1", nil, "%v", err)
		return
	}
	if err := userRound2(a, wire2); err != nil {
		r.Violate("C14:honest-exchange-failed:user-round2", nil, "%v", err)
		return
	}
	wire4, err := server.round2(a.wire3)
	if err != nil {
		r.Violate("C14:honest-exchange-failed:server-round2", map[string]any{"context_one": s.ContextOne}, "%v", err)
		return
	}
	pl, pp, err := finish(a, wire4)
	if err != nil {
		r.Violate("C14:honest-exchange-failed:build", nil, "%v", err)
		return
	}
	det := map[string]any{"context_one": s.ContextOne, "any_participating": anyPart}
	if pp.C.Cmp(a.challenge) != 0 {
		r.Violate("C14:challenges-differ", det, "server challenge differs from the user's (context=1: %v)", s.ContextOne)
	}
	hv := verifyWire(mustJSON(pl), a.sess)
	if !hv.Accepted && anyPart {
		if hv.Ambiguous {
			det["small_hidden_responses"] = ">=2"
		}
		r.Violate("C14:joint-proof-rejected", det, "merged proof list does not verify (context=1: %v, decode=%v, panic=%s)", s.ContextOne, hv.DecodeErr, hv.Panic)
	}
	r.Distinct(fmt.Sprintf("keys=%v part=%v builders=%+v sig=%v ctx1=%v", s.Keys, s.Participate, s.Builders, s.IsSig, s.ContextOne))
	if !anyPart {
		r.Probe("no-key-participates")
	}

	// ---- faults on the second user message, each in a fresh exchange of the same wallet
	b := mkSession() // another session of the same user: donor of replayed traffic
	if err := userRound1(b); err != nil {
		panic(err)
	}
	{
		w2, err := server.round1(b.wire1, b.builderKeys)
		if err != nil {
			panic(err)
		}
		if err := userRound2(b, w2); err != nil {
			panic(err)
		}
		server.crash()
	}
	hashed := func(p kernel.Path) bool { return len(p) > 0 && p[0] == "UserChallengeInput" }
	sem := func(x []byte) string {
		var q gabi.KeyshareResponseRequest[string]
		if json.Unmarshal(x, &q) != nil {
			return "undecodable"
		}
		if q.Context == nil {
			q.Context = big.NewInt(1) // an absent context means context 1 to the server
		}
		out, err := json.Marshal(q)
		if err != nil {
			return "unencodable"
		}
		return string(out)
	}
	// Every fault is applied to the same exchange: thanks to seeded randomness an identical
	// exchange up to the second message is reproduced by re-arming the server shell's volatile
	// state (randomizer + commitment request) as it was after round 1.
	armedRnd, armedReq := (*big.Int)(nil), (*gabi.KeyshareCommitmentRequest)(nil)
	{
		x := a
		w2, err := server.round1(x.wire1, x.builderKeys)
		if err != nil {
			panic(err)
		}
		if err := userRound2(x, w2); err != nil {
			panic(err)
		}
		armedRnd, armedReq = server.randomizer, server.commReq
	}
	tree := kernel.MustDecode(a.wire3)
	attempt := func(id, kind string, path kernel.Path, sent []byte) {
		if !wanted(s.OnlyFault, id) {
			return
		}
		r.Eval(1)
		r.Fault(kind)
		x := a
		server.randomizer, server.commReq = armedRnd, armedReq
		var w4 []byte
		var serr error
		pmsg, frame := guardFrame(func() { w4, serr = server.round2(sent) })
		d := map[string]any{"fault": id, "path": path.Generic()}
		if pmsg != "" {
			r.Violate("C14:panic:"+frame, d, "%s: keyshare server panics: %s", id, pmsg)
			return
		}
		changed := sem(sent) != sem(x.wire3)
		if serr != nil {
			r.Probe("server-refused")
			if !changed {
				r.Violate("C14:server-refused-unchanged-message", d, "%s: %v", id, serr)
			}
			return
		}
		r.Probe("server-answered")
		if hashed(path) && changed {
			r.Violate("C14:response-released-for-altered-commitment-input:"+path.Generic(), d, "%s: server released a response although the challenge input differs from what was committed", id)
			return
		}
		if changed {
			// unhashed element altered: what was released must not complete a proof in the original session
			pl, _, err := finish(x, w4)
			if err == nil {
				v := verifyWire(mustJSON(pl), x.sess)
				if v.Accepted && anyPart {
					r.Violate("C14:altered-request-yields-valid-proof:"+path.Generic(), d, "%s: response to an altered request completes a valid proof", id)
				}
			}
		}
	}
	for _, m := range kernel.Mutations(tree, c14Opts(len(keys))) {
		attempt(m.ID, "tamper-field", m.Path, m.Apply(tree))
	}
	attempt("replay-other-session-message", "replay", kernel.Path{"UserChallengeInput"}, b.wire3)
	// ---- faults on the FIRST user message: a user who does not commit (hash absent, empty, cut short or
	// altered) must not get an answer to any second message; armed state is rebuilt from the altered message
	{
		t1 := kernel.MustDecode(a.wire1)
		for _, m := range kernel.Mutations(t1, kernel.MutOpts{Values: true, Structural: true}) {
			id := "first-message:" + m.ID
			if !wanted(s.OnlyFault, id) {
				continue
			}
			altered := m.Apply(t1)
			var q1, q0 gabi.KeyshareCommitmentRequest
			if json.Unmarshal(altered, &q1) != nil || json.Unmarshal(a.wire1, &q0) != nil {
				r.Probe("decode-error")
				continue
			}
			if bytes.Equal(mustJSON(q1), mustJSON(q0)) {
				continue // nothing the server reads was changed
			}
			r.Eval(1)
			r.Fault("tamper-field:first-message")
			server.randomizer, server.commReq = armedRnd, &q1
			var serr error
			pmsg, frame := guardFrame(func() { _, serr = server.round2(a.wire3) })
			d := map[string]any{"fault": id, "path": m.Path.Generic()}
			if pmsg != "" {
				r.Violate("C14:panic:"+frame, d, "%s: keyshare server panics: %s", id, pmsg)
				continue
			}
			if serr == nil {
				r.Violate("C14:response-released-without-matching-commitment", d, "%s: the server answered the second message although the first message committed to something else (or to nothing)", id)
			} else {
				r.Probe("server-refused")
			}
		}
	}
	// unknown key id
	if wanted(s.OnlyFault, "unknown-key-id") && anyPart {
		r.Fault("unknown-key")
		x := mkSession()
		if err := userRound1(x); err != nil {
			panic(err)
		}
		w2, _ := server.round1(x.wire1, x.builderKeys)
		if err := userRound2(x, w2); err != nil {
			panic(err)
		}
		saved := server.keys
		server.keys = map[string]*gabikeys.PublicKey{}
		var serr error
		if p := guard(func() { _, serr = server.round2(x.wire3) }); p != "" {
			r.Violate("C14:panic:unknown-key", nil, "%s", p)
		} else if serr == nil {
			r.Violate("C14:response-for-unknown-key", map[string]any{"fault": "unknown-key-id"}, "server answered for a key it does not know")
		}
		server.keys = saved
	}
	// server crash between the round trips: state lost, must refuse
	if wanted(s.OnlyFault, "server-crash") {
		r.Fault("crash-restart")
		x := mkSession()
		if err := userRound1(x); err != nil {
			panic(err)
		}
		w2, _ := server.round1(x.wire1, x.builderKeys)
		if err := userRound2(x, w2); err != nil {
			panic(err)
		}
		server.crash()
		if _, err := server.round2(x.wire3); err == nil {
			r.Violate("C14:server-answered-after-crash", nil, "server shell answered without session state")
		}
		// duplicated second message after a normal answer: refused as well
		w2, _ = server.round1(x.wire1, x.builderKeys)
		_ = w2
	}
	r.Sample(s)
}

func c14Opts(nkeys int) kernel.MutOpts {
	return kernel.MutOpts{Values: true, Structural: true}
}

func TestC14(t *testing.T) {
	RunProp(t, Prop[C14Spec]{ID: "C14", Draw: drawC14, Exec: execC14,
		Minimise: func(s C14Spec, v kernel.Violation) C14Spec {
			if f, ok := v.Details["fault"].(string); ok {
				s.OnlyFault = []string{f}
			}
			return s
		}})
}

var _ = strings.HasPrefix
