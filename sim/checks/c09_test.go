package checks

import (
	"encoding/json"
	"fmt"
	"testing"
	"time"

	"github.com/fxamacker/cbor"
	"github.com/privacybydesign/gabi/revocation"
	"pgregory.net/rapid"

	"verif/sim/kernel"
)

// C09 — revocation witnesses track the accumulator through any history.
//
// World: one revocation authority (real NewAccumulator / Remove / Sign /
// NewUpdate), a holder with several witnesses, and a lossy, duplicating,
// reordering delivery of update messages: every op of the drawn history is one
// delivery of some window [s..t] of the event log to one witness, through
// memory, JSON or CBOR, with one update object possibly shared by several
// witnesses. Holder restarts reload a witness from its JSON blob. The oracle is
// the set-of-revoked-values reference model (DESIGN §6 C09).

type c09Wit struct {
	IssuedAt  int `json:"issued_at"`
	RevokedAt int `json:"revoked_at"` // 0 = never; otherwise > IssuedAt
}

type c09Upd struct {
	S, T    int
	Codec   int  // 0 memory, 1 JSON, 2 CBOR
	Refresh bool // RA re-signs accumulator T at a later time before building it
}

type c09Op struct {
	Kind    int // 0 deliver update U to witness W; 1 holder restart of W; 2 prepend [P..L] to update U
	W, U    int
	Fresh   bool // deliver a fresh object for U's window instead of the shared one
	P, L    int
	Compute bool // prepended list carries a product (ComputeProduct when decoding)
}

type C09Spec struct {
	Key     string   `json:"key"`
	LibSeed uint64   `json:"lib_seed"`
	NRev    int      `json:"n_rev"`
	Wits    []c09Wit `json:"wits"`
	Upds    []c09Upd `json:"upds"`
	Ops     []c09Op  `json:"ops"`
	Deltas  []int    `json:"deltas"` // seconds of simulated time between RA signings
}

func drawC09(rt *rapid.T) C09Spec {
	maxRev, maxW, maxOps := 6, 4, 8
	if thorough() {
		maxRev, maxW, maxOps = 12, 8, 24
	}
	s := C09Spec{LibSeed: rapid.Uint64().Draw(rt, "libseed")}
	s.Key = rapid.SampledFrom(kernel.KeyNames(256)).Draw(rt, "key")
	s.NRev = rapid.IntRange(0, maxRev).Draw(rt, "nrev")
	nw := rapid.IntRange(1, maxW).Draw(rt, "nwits")
	for i := 0; i < nw; i++ {
		w := c09Wit{IssuedAt: rapid.IntRange(0, s.NRev).Draw(rt, "issued")}
		if w.IssuedAt < s.NRev && rapid.Bool().Draw(rt, "revoked") {
			w.RevokedAt = rapid.IntRange(w.IssuedAt+1, s.NRev).Draw(rt, "revoked_at")
		}
		s.Wits = append(s.Wits, w)
	}
	nu := rapid.IntRange(1, 5).Draw(rt, "nupds")
	for i := 0; i < nu; i++ {
		t := rapid.IntRange(0, s.NRev).Draw(rt, "t")
		u := c09Upd{T: t, S: rapid.IntRange(0, t+1).Draw(rt, "s"), Codec: rapid.IntRange(0, 2).Draw(rt, "codec")}
		u.Refresh = rapid.IntRange(0, 5).Draw(rt, "refresh") == 0
		s.Upds = append(s.Upds, u)
	}
	nops := rapid.IntRange(1, maxOps).Draw(rt, "nops")
	for i := 0; i < nops; i++ {
		k := rapid.SampledFrom([]int{0, 0, 0, 0, 0, 1, 2}).Draw(rt, "kind")
		op := c09Op{Kind: k, W: rapid.IntRange(0, nw-1).Draw(rt, "w"), U: rapid.IntRange(0, nu-1).Draw(rt, "u")}
		op.Fresh = rapid.IntRange(0, 3).Draw(rt, "fresh") == 0
		if k == 2 {
			op.L = rapid.IntRange(0, s.NRev).Draw(rt, "l")
			op.P = rapid.IntRange(0, op.L).Draw(rt, "p")
			op.Compute = rapid.Bool().Draw(rt, "compute")
		}
		s.Ops = append(s.Ops, op)
	}
	nd := rapid.IntRange(0, 4).Draw(rt, "ndeltas")
	for i := 0; i < nd; i++ {
		s.Deltas = append(s.Deltas, rapid.SampledFrom([]int{0, 0, 1, 3600, 86400 * 30, -3600, -86400 * 400}).Draw(rt, "delta"))
	}
	return s
}

func witSnap(w *revocation.Witness) string {
	acc := ""
	if a := w.SignedAccumulator.Accumulator; a != nil {
		acc = fmt.Sprintf("%s/%d/%d/%x", a.Nu, a.Index, a.Time, []byte(a.EventHash))
	}
	return fmt.Sprintf("u=%s e=%s data=%x pk=%d upd=%d acc=%s", w.U, w.E, []byte(w.SignedAccumulator.Data),
		w.SignedAccumulator.PKCounter, w.Updated.Unix(), acc)
}

func transportUpdate(u *revocation.Update, codec int) (*revocation.Update, error) {
	switch codec {
	case 1:
		b, err := json.Marshal(u)
		if err != nil {
			return nil, err
		}
		out := &revocation.Update{}
		return out, json.Unmarshal(b, out)
	case 2:
		b, err := cbor.Marshal(u, cbor.EncOptions{})
		if err != nil {
			return nil, err
		}
		out := &revocation.Update{}
		return out, cbor.Unmarshal(b, out)
	}
	return u, nil
}

func execC09(r *kernel.Run, s C09Spec) {
	if p := kernel.InBubble(r.T, func() { execC09Bubble(r, s) }); p != nil {
		panic(p)
	}
}

func execC09Bubble(r *kernel.Run, s C09Spec) {
	kernel.SeedLibrary(r.T, s.LibSeed)
	key := kernel.GetKey(s.Key)
	pk := key.Pk
	// delta advances the simulated clock before the authority's next signing; a negative entry is an
	// authority whose clock was stepped back: the returned offset is applied to what it signs next
	delta := func(i int) int64 {
		if len(s.Deltas) > 0 {
			d := s.Deltas[i%len(s.Deltas)]
			if d < 0 {
				r.Fault("clock:step-back")
				return int64(d)
			}
			time.Sleep(time.Duration(d) * time.Second)
			r.SimTime(float64(d))
			if d == 0 {
				r.Fault("clock:same-second")
			} else if d > 86400 {
				r.Fault("clock:jump")
			}
		}
		return 0
	}

	ra, err := kernel.NewRevAuthority(key)
	if err != nil {
		panic(err)
	}
	stepBack := func(i int, off int64) {
		if off != 0 {
			if err := ra.PinTime(i, time.Now().Unix()+off); err != nil {
				panic(err)
			}
		}
	}
	// timeline: issue witnesses against head, then revoke
	wits := make([]*revocation.Witness, len(s.Wits))
	for idx := 0; idx <= s.NRev; idx++ {
		for i, ws := range s.Wits {
			if ws.IssuedAt == idx {
				w, err := ra.NewWitness(idx)
				if err != nil {
					panic(err)
				}
				wits[i] = w
			}
		}
		if idx == s.NRev {
			break
		}
		off := delta(idx)
		var victim *revocation.Witness
		for i, ws := range s.Wits {
			if ws.RevokedAt == idx+1 && wits[i] != nil {
				victim = wits[i]
				break
			}
		}
		e := (victim)
		if e == nil { // revoke somebody else's credential
			other, err := revocation.RandomWitness(key.Sk, ra.Accs[ra.Head()])
			if err != nil {
				panic(err)
			}
			e = other
		}
		if err := ra.Revoke(e.E); err != nil {
			panic(err)
		}
		stepBack(ra.Head(), off)
	}
	// model state per witness
	type mstate struct {
		idx     int
		revoked int // event index that removed it (0 = never); several spec witnesses may name the same event: only the first is the victim
		accTime int64
	}
	ms := make([]mstate, len(wits))
	for i, w := range wits {
		ms[i] = mstate{idx: s.Wits[i].IssuedAt, accTime: w.SignedAccumulator.Accumulator.Time}
		for ev := 1; ev <= ra.Head(); ev++ {
			if ra.Events[ev].E.Cmp(w.E) == 0 {
				ms[i].revoked = ev
			}
		}
		r.Logf("witness %d issued@%d revoked@%d", i, ms[i].idx, ms[i].revoked)
	}

	// update objects (windows may be changed by Prepend)
	type uobj struct {
		u      *revocation.Update
		s, t   int
		shared int
	}
	objs := make([]*uobj, len(s.Upds))
	build := func(k int, st, t int) *revocation.Update {
		us := s.Upds[k]
		if us.Refresh {
			off := delta(k)
			if err := ra.Resign(t); err != nil {
				panic(err)
			}
			stepBack(t, off)
			r.Fault("resign-same-index")
		}
		u, err := ra.Update(st, t)
		if err != nil {
			panic(fmt.Sprintf("RA cannot build update %d..%d: %v", st, t, err))
		}
		u2, err := transportUpdate(u, us.Codec)
		if err != nil {
			panic(fmt.Sprintf("honest update does not survive codec %d: %v", us.Codec, err))
		}
		return u2
	}
	get := func(k int) *uobj {
		if objs[k] == nil {
			objs[k] = &uobj{u: build(k, s.Upds[k].S, s.Upds[k].T), s: s.Upds[k].S, t: s.Upds[k].T}
		}
		return objs[k]
	}

	apply := func(step string, wi int, u *revocation.Update, st, t int, shared bool) {
		w, m := wits[wi], &ms[wi]
		before := witSnap(w)
		r.Eval(1)
		var err error
		if p := guard(func() { err = w.Update(pk, u) }); p != "" {
			r.Violate("C09:panic:Witness.Update", nil, "%s: Witness.Update panics on a genuine update %d..%d at index %d: %s", step, st, t, m.idx, p)
			return
		}
		after := witSnap(w)
		i := m.idx
		empty := st > t
		revokedInWindow := m.revoked > i && m.revoked <= t
		outcome := "nil"
		if err == revocation.ErrorRevoked {
			outcome = "revoked"
		} else if err != nil {
			outcome = "error"
		}
		r.Logf("%s w=%d idx=%d window=%d..%d shared=%v -> %s", step, wi, i, st, t, shared, outcome)
		r.Distinct(fmt.Sprintf("i=%d s=%d t=%d rev=%v shared=%v codec=%d out=%s", i, st, t, revokedInWindow, shared, 0, outcome))
		det := map[string]any{"shared": shared, "empty": empty}
		if err != nil && before != after {
			r.Violate("C09:state-changed-on-error", det, "%s: witness %d changed although Update returned %v", step, wi, err)
			return
		}
		switch {
		case t < i || (empty && t != i):
			// nothing to learn, or an update without events for a newer accumulator: nil and unchanged
			if err != nil {
				r.Violate("C09:old-update-errors", det, "%s: update ending at %d delivered to witness at %d returned %v", step, t, i, err)
			} else if before != after {
				r.Violate("C09:old-update-changed-witness", det, "%s: update ending at %d changed witness at %d", step, t, i)
			}
			r.Probe("old-or-empty-update")
		case t == i:
			if err != nil {
				r.Violate("C09:same-index-update-errors", det, "%s: %v", step, err)
				return
			}
			a := w.SignedAccumulator.Accumulator
			if a == nil || int(a.Index) != i || a.Time < m.accTime {
				r.Violate("C09:moved-backwards", det, "%s: same-index update moved witness backwards in time or index", step)
				return
			}
			if a.Time > m.accTime && before == after {
				// the accumulator object this witness points at was refreshed through another witness or
				// update object sharing it (one update object applied to several witnesses): nothing the
				// property speaks about
				r.Probe("refreshed-through-shared-object")
			}
			if a.Time > m.accTime && before != after {
				r.Probe("same-index-refresh")
				if w.Updated.Unix() != a.Time {
					r.Violate("C09:updated-time-wrong", det, "%s: Updated=%d accumulator time=%d", step, w.Updated.Unix(), a.Time)
				}
			}
			m.accTime = a.Time
		case st > i+1:
			r.Fault("gap")
			if err == nil {
				r.Violate("C09:gap-accepted", det, "%s: update starting at %d accepted by witness at %d", step, st, i)
			}
		case revokedInWindow:
			r.Probe("revoked-reported")
			if err != revocation.ErrorRevoked {
				r.Violate("C09:revoked-not-reported", det, "%s: witness revoked at %d, update %d..%d returned %v", step, m.revoked, st, t, err)
			}
		default:
			if shared {
				r.Probe("shared-object-advance")
			}
			if err != nil {
				cls := "C09:nonrevoked-update-failed"
				if shared {
					cls += ":shared-update-object"
				}
				r.Violate(cls, det, "%s: non-revoked witness at %d, update %d..%d failed: %v", step, i, st, t, err)
				return
			}
			a := w.SignedAccumulator.Accumulator
			if a == nil || int(a.Index) != t {
				r.Violate("C09:index-wrong-after-update", det, "%s: expected index %d", step, t)
				return
			}
			if w.Updated.Unix() != a.Time {
				r.Violate("C09:updated-time-wrong", det, "%s: Updated=%d accumulator time=%d", step, w.Updated.Unix(), a.Time)
			}
			m.idx, m.accTime = t, a.Time
			r.Probe("advanced")
		}
		// invariants after every delivery
		if err := w.Verify(pk); err != nil {
			r.Violate("C09:witness-invalid", det, "%s: witness %d no longer verifies against its own accumulator: %v", step, wi, err)
		}
		if a := w.SignedAccumulator.Accumulator; a != nil {
			if int(a.Index) < i {
				r.Violate("C09:moved-backwards", det, "%s: index %d -> %d", step, i, a.Index)
			}
			if m.revoked > 0 && int(a.Index) >= m.revoked {
				r.Violate("C09:revoked-witness-valid-again", det, "%s: witness revoked at %d now at index %d", step, m.revoked, a.Index)
			}
			if ra.Accs[a.Index].Nu.Cmp(a.Nu) != 0 {
				r.Violate("C09:unknown-accumulator", det, "%s: witness carries an accumulator the RA never produced", step)
			}
		}
	}

	for n, op := range s.Ops {
		step := fmt.Sprintf("op%d", n)
		switch op.Kind {
		case 0:
			o := get(op.U)
			u, shared := o.u, false
			if op.Fresh {
				u = build(op.U, o.s, o.t)
				r.Probe("fresh-object")
			} else {
				o.shared++
				shared = o.shared > 1
				if shared {
					r.Fault("dup-or-shared-delivery")
				}
			}
			apply(step, op.W, u, o.s, o.t, shared)
		case 1:
			// holder crash-restart: witness reloaded from its durable JSON blob
			r.Fault("crash-restart")
			blob, err := json.Marshal(wits[op.W])
			if err != nil {
				r.Violate("C09:witness-not-serialisable", nil, "%s: %v", step, err)
				continue
			}
			nw := &revocation.Witness{}
			if err := json.Unmarshal(blob, nw); err != nil {
				r.Violate("C09:witness-blob-unreadable", nil, "%s: %v", step, err)
				continue
			}
			if err := nw.Verify(pk); err != nil {
				r.Violate("C09:reloaded-witness-invalid", nil, "%s: %v", step, err)
				continue
			}
			if int(nw.SignedAccumulator.Accumulator.Index) != ms[op.W].idx {
				r.Violate("C09:reloaded-witness-index", nil, "%s: index %d != %d", step, nw.SignedAccumulator.Accumulator.Index, ms[op.W].idx)
			}
			wits[op.W] = nw
			r.Logf("%s restart w=%d", step, op.W)
		case 2:
			o := get(op.U)
			if o.s > o.t {
				continue // Prepend on an update without events is not exercised (see DESIGN)
			}
			el := revocation.NewEventList(ra.Events[op.P : op.L+1]...)
			if op.Compute {
				b, _ := json.Marshal(el)
				el = &revocation.EventList{ComputeProduct: true}
				if err := json.Unmarshal(b, el); err != nil {
					panic(err)
				}
			}
			if o.u.SignedAccumulator.Accumulator == nil {
				// holders verify an update before working with it (this is what fills in the accumulator)
				if _, err := o.u.Verify(pk); err != nil {
					r.Violate("C09:honest-update-rejected", nil, "%s: %v", step, err)
					continue
				}
			}
			beforeN := len(o.u.Events)
			var err error
			if p := guard(func() { err = o.u.Prepend(el) }); p != "" {
				r.Violate("C09:panic:Update.Prepend", map[string]any{"full_overlap": op.L == o.t}, "%s: prepending genuine events %d..%d to update %d..%d panics: %s", step, op.P, op.L, o.s, o.t, p)
				objs[op.U] = nil // the object may be half-modified: the holder fetches it again
				continue
			}
			r.Eval(1)
			okExpected := op.L >= o.s-1 && op.L <= o.t
			if o.s == 0 {
				// nothing is older than event 0: whether such a pointless Prepend succeeds is not
				// part of the property (the library refuses it); only "no change on error" is checked
				if err != nil && len(o.u.Events) != beforeN {
					r.Violate("C09:state-changed-on-error", map[string]any{"prepend": true}, "%s: update changed by failed Prepend", step)
				}
				if err == nil {
					o.s = min(o.s, op.P)
				}
				continue
			}
			r.Logf("%s prepend %d..%d to %d..%d -> err=%v", step, op.P, op.L, o.s, o.t, err != nil)
			r.Distinct(fmt.Sprintf("prepend p=%d l=%d s=%d t=%d c=%v", op.P, op.L, o.s, o.t, op.Compute))
			if okExpected && err != nil {
				r.Violate("C09:prepend-rejected", nil, "%s: genuine events %d..%d prepended to %d..%d: %v", step, op.P, op.L, o.s, o.t, err)
			} else if !okExpected && err == nil {
				r.Violate("C09:prepend-accepted-gap", nil, "%s: events %d..%d prepended to %d..%d accepted", step, op.P, op.L, o.s, o.t)
			} else if err != nil && len(o.u.Events) != beforeN {
				r.Violate("C09:state-changed-on-error", map[string]any{"prepend": true}, "%s: update changed by failed Prepend", step)
			} else if err == nil {
				o.s = op.P
				if len(o.u.Events) != o.t-o.s+1 || int(o.u.Events[0].Index) != o.s {
					r.Violate("C09:prepend-wrong-window", nil, "%s: window after prepend is not %d..%d", step, o.s, o.t)
				}
				r.Probe("prepend-ok")
			}
		}
	}

	// recovery phase: faults stop, a clean full update reaches every witness
	for i := range wits {
		u, err := ra.Update(0, ra.Head())
		if err != nil {
			panic(err)
		}
		apply("recovery", i, u, 0, ra.Head(), false)
		if ms[i].revoked == 0 && ms[i].idx != ra.Head() {
			r.Violate("C09:no-progress-after-faults", nil, "witness %d stuck at %d, head %d", i, ms[i].idx, ra.Head())
		}
	}
	r.Sample(s)
}

// Exhaustive sub-space walked by the thorough tier: at most 2 revocations, 2 witnesses with every
// issue index and every revocation choice, 2 update windows with every (s, t), every sequence of at
// most 3 deliveries (witness, update, shared or fresh object), in-memory objects.
func c09WitConfigs(nrev int) []c09Wit {
	var out []c09Wit
	for at := 0; at <= nrev; at++ {
		out = append(out, c09Wit{IssuedAt: at})
		for rv := at + 1; rv <= nrev; rv++ {
			out = append(out, c09Wit{IssuedAt: at, RevokedAt: rv})
		}
	}
	return out
}

func c09Windows(nrev int) []c09Upd {
	var out []c09Upd
	for t := 0; t <= nrev; t++ {
		for s := 0; s <= t+1; s++ {
			out = append(out, c09Upd{S: s, T: t})
		}
	}
	return out
}

func c09OpSeqs() [][]c09Op {
	var single []c09Op
	for w := 0; w < 2; w++ {
		for u := 0; u < 2; u++ {
			for _, fresh := range []bool{false, true} {
				single = append(single, c09Op{Kind: 0, W: w, U: u, Fresh: fresh})
			}
		}
	}
	var out [][]c09Op
	for _, a := range single {
		out = append(out, []c09Op{a})
		for _, b := range single {
			out = append(out, []c09Op{a, b})
			for _, c := range single {
				out = append(out, []c09Op{a, b, c})
			}
		}
	}
	return out
}

type c09EnumDims struct {
	nrev       int
	wits, wins int
}

var c09Seqs = c09OpSeqs()

func c09EnumLayout() (dims []c09EnumDims, total int) {
	for nrev := 0; nrev <= 2; nrev++ {
		d := c09EnumDims{nrev, len(c09WitConfigs(nrev)), len(c09Windows(nrev))}
		dims = append(dims, d)
		total += d.wits * d.wits * d.wins * d.wins * len(c09Seqs)
	}
	return
}

func c09EnumSpec(i int) C09Spec {
	dims, _ := c09EnumLayout()
	for _, d := range dims {
		block := d.wits * d.wits * d.wins * d.wins * len(c09Seqs)
		if i >= block {
			i -= block
			continue
		}
		wc, wn := c09WitConfigs(d.nrev), c09Windows(d.nrev)
		s := C09Spec{Key: "toy256-0", LibSeed: uint64(i), NRev: d.nrev}
		s.Ops = c09Seqs[i%len(c09Seqs)]
		i /= len(c09Seqs)
		s.Upds = []c09Upd{wn[i%d.wins], wn[(i/d.wins)%d.wins]}
		i /= d.wins * d.wins
		s.Wits = []c09Wit{wc[i%d.wits], wc[(i/d.wits)%d.wits]}
		return s
	}
	panic("enumeration index out of range")
}

func TestC09(t *testing.T) {
	_, total := c09EnumLayout()
	RunProp(t, Prop[C09Spec]{ID: "C09", Draw: drawC09, Exec: execC09,
		EnumCount: func() int { return total }, EnumSpec: c09EnumSpec})
}
