package checks

import (
	"bytes"
	"encoding/json"
	"encoding/xml"
	"errors"
	"fmt"
	"os"
	"os/signal"
	"path/filepath"
	"regexp"
	"strings"
	"sync"
	"syscall"
	"testing"

	"github.com/fxamacker/cbor"
	"github.com/privacybydesign/gabi"
	"github.com/privacybydesign/gabi/big"
	"github.com/privacybydesign/gabi/gabikeys"
	"github.com/privacybydesign/gabi/revocation"
	"pgregory.net/rapid"

	"verif/sim/kernel"
)

// C18 — serialisation round trips preserve meaning; key files stay private.
//
// Every message of every other world already crosses the wire encoded; this
// check adds the dedicated scenarios: (0) key documents written through a
// faulting writer and re-read, (1) bit-rotted key documents (one element
// deleted, negated, garbled, duplicated, emptied, count changed), (2) file
// histories on the real file system (prior file states x umask x overwrite flag
// x operator chmod / symlink replacement), (3) big integers over boundary byte
// lengths through JSON, XML and CBOR, (4) shadow verification of every message
// type with optional parts present or absent.

type c18FileOp struct {
	Kind  int  `json:"kind"` // 0 write private, 1 write public, 2 operator chmod, 3 replace by symlink, 4 delete
	Force bool `json:"force"`
	Mode  int  `json:"mode"`
	Limit int  `json:"limit,omitempty"` // > 0: the disk refuses to let the file grow beyond Limit-1 bytes during this write (RLIMIT_FSIZE)
}

type C18Spec struct {
	Scenario  int         `json:"scenario"`
	Key       string      `json:"key"`
	LibSeed   uint64      `json:"lib_seed"`
	ValSeed   uint64      `json:"val_seed"`
	NBases    int         `json:"n_bases"`
	WithRev   bool        `json:"with_rev"`
	Umask     int         `json:"umask"`
	Prior     int         `json:"prior"` // 0 absent, 1 0644, 2 0666, 3 0400, 4 symlink to file, 5 dangling symlink
	Ops       []c18FileOp `json:"ops"`
	FailAt    int         `json:"fail_at"` // faulting writer: error after this many bytes
	OnlyFault []string    `json:"only_fault,omitempty"`
}

func drawC18(rt *rapid.T) C18Spec {
	s := C18Spec{LibSeed: rapid.Uint64().Draw(rt, "libseed"), ValSeed: rapid.Uint64().Draw(rt, "valseed")}
	s.Scenario = rapid.SampledFrom([]int{0, 1, 1, 2, 2, 2, 3, 4}).Draw(rt, "scenario")
	s.Key = rapid.SampledFrom(append(kernel.KeyNames(1024), kernel.KeyNames(2048)...)).Draw(rt, "key")
	s.NBases = rapid.IntRange(1, 20).Draw(rt, "nbases") // a key has at least the base of the secret key
	s.WithRev = rapid.Bool().Draw(rt, "withrev")
	s.Umask = rapid.SampledFrom([]int{0, 0o022, 0o077, 0o027, 0o002}).Draw(rt, "umask")
	s.Prior = rapid.IntRange(0, 5).Draw(rt, "prior")
	n := rapid.IntRange(1, 6).Draw(rt, "nops")
	for i := 0; i < n; i++ {
		s.Ops = append(s.Ops, c18FileOp{Kind: rapid.SampledFrom([]int{0, 0, 0, 1, 2, 3, 4}).Draw(rt, "fkind"), Force: rapid.Bool().Draw(rt, "force"),
			Mode: rapid.SampledFrom([]int{0o644, 0o666, 0o400, 0o600, 0o777}).Draw(rt, "mode")})
	}
	s.FailAt = rapid.IntRange(0, 3000).Draw(rt, "failat")
	for i := range s.Ops {
		if s.Ops[i].Kind <= 1 && rapid.IntRange(0, 3).Draw(rt, "diskfull") == 0 {
			s.Ops[i].Limit = 1 + rapid.IntRange(0, 1500).Draw(rt, "limit")
		}
	}
	return s
}

type failingWriter struct {
	n, limit int
}

var errDiskFull = errors.New("simulated disk error")

func (f *failingWriter) Write(p []byte) (int, error) {
	if f.n+len(p) > f.limit {
		k := f.limit - f.n
		if k < 0 {
			k = 0
		}
		f.n += k
		return k, errDiskFull
	}
	f.n += len(p)
	return len(p), nil
}

func variantKey(k *kernel.Key, nbases int, withRev bool) (*gabikeys.PrivateKey, *gabikeys.PublicKey) {
	pk := *k.Pk
	sk := *k.Sk
	pk.R = append(gabikeys.Bases{}, k.Pk.R[:min(nbases, len(k.Pk.R))]...)
	for i := len(pk.R); i < nbases; i++ {
		// further bases for the document round trip: distinct quadratic residues S^(i+2)
		pk.R = append(pk.R, new(big.Int).Exp(k.Pk.S, big.NewInt(int64(i+2)), k.Pk.N))
	}
	if !withRev {
		pk.G, pk.H, pk.ECDSA, pk.ECDSAString = nil, nil, nil, ""
		sk.ECDSA, sk.ECDSAString = nil, ""
	}
	return &sk, &pk
}

func samePub(a, b *gabikeys.PublicKey) string {
	eq := func(x, y *big.Int) bool { return (x == nil) == (y == nil) && (x == nil || x.Cmp(y) == 0) }
	switch {
	case a.Counter != b.Counter:
		return "Counter"
	case a.ExpiryDate != b.ExpiryDate:
		return "ExpiryDate"
	case !eq(a.N, b.N):
		return "n"
	case !eq(a.Z, b.Z):
		return "Z"
	case !eq(a.S, b.S):
		return "S"
	case !eq(a.G, b.G):
		return "G"
	case !eq(a.H, b.H):
		return "H"
	case len(a.R) != len(b.R):
		return "Bases count"
	case a.EpochLength != b.EpochLength:
		return "EpochLength"
	case a.ECDSAString != b.ECDSAString:
		return "ECDSA"
	case (a.ECDSA == nil) != (b.ECDSA == nil) || a.ECDSA != nil && !a.ECDSA.Equal(b.ECDSA):
		return "ECDSA key"
	case a.Params == nil || b.Params == nil || *a.Params != *b.Params:
		return "Params"
	}
	for i := range a.R {
		if !eq(a.R[i], b.R[i]) {
			return fmt.Sprintf("Base_%d", i)
		}
	}
	return ""
}

func samePriv(a, b *gabikeys.PrivateKey) string {
	eq := func(x, y *big.Int) bool { return (x == nil) == (y == nil) && (x == nil || x.Cmp(y) == 0) }
	switch {
	case a.Counter != b.Counter:
		return "Counter"
	case a.ExpiryDate != b.ExpiryDate:
		return "ExpiryDate"
	case !eq(a.P, b.P):
		return "p"
	case !eq(a.Q, b.Q):
		return "q"
	case !eq(a.PPrime, b.PPrime):
		return "pPrime"
	case !eq(a.QPrime, b.QPrime):
		return "qPrime"
	case !eq(a.N, b.N):
		return "N"
	case !eq(a.Order, b.Order):
		return "Order"
	case a.ECDSAString != b.ECDSAString:
		return "ECDSA"
	case (a.ECDSA == nil) != (b.ECDSA == nil) || a.ECDSA != nil && !a.ECDSA.Equal(b.ECDSA):
		return "ECDSA key"
	}
	return ""
}

func execC18(r *kernel.Run, s C18Spec) {
	kernel.SeedLibrary(r.T, s.LibSeed)
	key := kernel.GetKey(s.Key)
	sk, pk := variantKey(key, s.NBases, s.WithRev)
	r.Logf("scenario=%d key=%s bases=%d rev=%v", s.Scenario, s.Key, s.NBases, s.WithRev)
	switch s.Scenario {
	case 0:
		c18Writers(r, s, sk, pk)
	case 1:
		c18BitRot(r, s, sk, pk)
	case 2:
		c18Files(r, s, sk, pk)
	case 3:
		c18Integers(r, s)
	case 4:
		c18Shadow(r, s)
	}
	r.Sample(s)
}

// --- scenario 0: WriteTo through good and faulting writers, re-read
func c18Writers(r *kernel.Run, s C18Spec, sk *gabikeys.PrivateKey, pk *gabikeys.PublicKey) {
	r.Distinct(fmt.Sprintf("writers bases=%d rev=%v bits=%d", s.NBases, s.WithRev, pk.N.BitLen()))
	var pb, sb bytes.Buffer
	n1, err1 := pk.WriteTo(&pb)
	n2, err2 := sk.WriteTo(&sb)
	r.Eval(2)
	if err1 != nil || err2 != nil || int(n1) != pb.Len() || int(n2) != sb.Len() {
		r.Violate("C18:key-write-failed", nil, "WriteTo: %v %v (reported %d/%d bytes, wrote %d/%d)", err1, err2, n1, n2, pb.Len(), sb.Len())
		return
	}
	pk2, err := gabikeys.NewPublicKeyFromBytes(pb.Bytes())
	if err != nil {
		r.Violate("C18:key-reread-failed", map[string]any{"which": "public"}, "%v", err)
	} else if d := samePub(pk, pk2); d != "" {
		r.Violate("C18:key-round-trip-differs", map[string]any{"which": "public", "field": d}, "public key field %s differs after XML round trip", d)
	}
	sk2, err := gabikeys.NewPrivateKeyFromXML(sb.String(), false)
	if err != nil {
		r.Violate("C18:key-reread-failed", map[string]any{"which": "private"}, "%v", err)
	} else if d := samePriv(sk, sk2); d != "" {
		r.Violate("C18:key-round-trip-differs", map[string]any{"which": "private", "field": d}, "private key field %s differs after XML round trip", d)
	}
	// faulting writer: the error must surface
	for _, total := range []int{pb.Len(), sb.Len()} {
		limit := s.FailAt % total
		r.Fault("disk:writer-error")
		fw := &failingWriter{limit: limit}
		var err error
		if total == pb.Len() {
			_, err = pk.WriteTo(fw)
		} else {
			_, err = sk.WriteTo(fw)
		}
		r.Eval(1)
		if err == nil {
			r.Violate("C18:writer-error-swallowed", nil, "writer failed after %d of %d bytes, WriteTo returned no error", limit, total)
		}
	}
}

// --- scenario 1: bit rot in key documents
var elemRe = regexp.MustCompile(`(?s)<([A-Za-z_0-9]+)( [^>]*)?>([^<]*)</([A-Za-z_0-9]+)>`)

type xmlMut struct {
	id   string
	text string
}

func xmlMutations(doc string) []xmlMut {
	var out []xmlMut
	for _, m := range elemRe.FindAllStringSubmatchIndex(doc, -1) {
		name := doc[m[2]:m[3]]
		content := doc[m[6]:m[7]]
		whole := doc[m[0]:m[1]]
		repl := func(kind, nw string) {
			out = append(out, xmlMut{kind + ":" + name, doc[:m[0]] + nw + doc[m[1]:]})
		}
		repl("delete", "")
		repl("empty", strings.Replace(whole, ">"+content+"<", "><", 1))
		repl("negate", strings.Replace(whole, ">"+content+"<", ">-"+content+"<", 1))
		repl("garble", strings.Replace(whole, ">"+content+"<", ">"+content+"x<", 1))
		repl("hex", strings.Replace(whole, ">"+content+"<", ">0x1f<", 1))
		repl("space", strings.Replace(whole, ">"+content+"<", "> "+content+" <", 1))
		repl("duplicate", whole+whole)
		if len(content) > 1 {
			repl("truncate", strings.Replace(whole, ">"+content+"<", ">"+content[:len(content)-1]+"<", 1))
		}
	}
	if i := strings.Index(doc, `Bases num="`); i >= 0 {
		j := i + len(`Bases num="`)
		k := j + strings.Index(doc[j:], `"`)
		for _, nv := range []string{"0", "1", "99", "-1", "x"} {
			out = append(out, xmlMut{"basesnum=" + nv, doc[:j] + nv + doc[k:]})
		}
	}
	// whole containers deleted or emptied
	for _, c := range []string{"Bases", "Elements", "Features"} {
		if m := regexp.MustCompile(`(?s)\s*<` + c + `( [^>]*)?>.*</` + c + `>`).FindStringIndex(doc); m != nil {
			out = append(out, xmlMut{"delete-container:" + c, doc[:m[0]] + doc[m[1]:]})
		}
	}
	if m := regexp.MustCompile(`(?s)<Bases num="[0-9]+">.*</Bases>`).FindStringIndex(doc); m != nil {
		out = append(out, xmlMut{"empty-base-list", doc[:m[0]] + `<Bases num="0"></Bases>` + doc[m[1]:]})
	}
	// the numbering of the bases: names exchanged, repeated, out of range, not a base at all
	ren := func(id, from, to string) {
		if strings.Contains(doc, "<"+from+">") {
			t := strings.Replace(doc, "<"+from+">", "<"+to+">", 1)
			t = strings.Replace(t, "</"+from+">", "</"+to+">", 1)
			out = append(out, xmlMut{id, t})
		}
	}
	if strings.Contains(doc, "<Base_1>") {
		t := strings.NewReplacer("<Base_0>", "<Base_1>", "</Base_0>", "</Base_1>", "<Base_1>", "<Base_0>", "</Base_1>", "</Base_0>").Replace(doc)
		out = append(out, xmlMut{"base-names-exchanged", t})
		ren("base-number-repeated", "Base_1", "Base_0")
		ren("base-number-out-of-range", "Base_1", "Base_17")
		ren("base-number-negative", "Base_1", "Base_-1")
		ren("base-not-a-base", "Base_1", "Foo")
	}
	if strings.Contains(doc, `Epoch length="`) {
		out = append(out, xmlMut{"negative-epoch-length", strings.Replace(doc, `Epoch length="`, `Epoch length="-`, 1)})
	}
	// private key documents: primes that are consistent one by one but not a key
	subst := func(id string, vals map[string]string) {
		t := doc
		for name, v := range vals {
			re := regexp.MustCompile(`<` + name + `>[^<]*</` + name + `>`)
			if !re.MatchString(t) {
				return
			}
			t = re.ReplaceAllString(t, "<"+name+">"+v+"</"+name+">")
		}
		out = append(out, xmlMut{id, t})
	}
	if m := regexp.MustCompile(`<p>([0-9]+)</p>`).FindStringSubmatch(doc); m != nil {
		if mp := regexp.MustCompile(`<pPrime>([0-9]+)</pPrime>`).FindStringSubmatch(doc); mp != nil {
			subst("q-equals-p", map[string]string{"q": m[1], "qPrime": mp[1]})
		}
		subst("tiny-safe-primes", map[string]string{"p": "7", "pPrime": "3", "q": "11", "qPrime": "5"})
		// two genuine 512-bit safe primes whose second-highest bit is 0 (found with cmd/genlowprimes; the
		// library's generator always sets the two top bits): their product has 1023 bits, a length no
		// parameter set exists for, although the lengths of the primes add up to 1024
		subst("safe-primes-with-1023-bit-product", map[string]string{
			"p": "9571311492606360139821659900066007709438846253405567936027507847950407267125492889878220256443481164238083799565294122524633501246167862081206202732352627", "pPrime": "4785655746303180069910829950033003854719423126702783968013753923975203633562746444939110128221740582119041899782647061262316750623083931040603101366176313",
			"q": "6939842864475019135507660749778309725166181672458106014638211096125135537119657486460620381901903488835711876486424982929522649760721668351203606709165407", "qPrime": "3469921432237509567753830374889154862583090836229053007319105548062567768559828743230310190950951744417855938243212491464761324880360834175601803354582703"})
		subst("short-safe-primes", map[string]string{"p": "1000000000000000007883", "pPrime": "500000000000000003941", "q": "1000000000000000016063", "qPrime": "500000000000000008031"})
	}
	return out
}

func c18BitRot(r *kernel.Run, s C18Spec, sk *gabikeys.PrivateKey, pk *gabikeys.PublicKey) {
	r.Distinct(fmt.Sprintf("bitrot bases=%d rev=%v bits=%d", s.NBases, s.WithRev, pk.N.BitLen()))
	var pb, sb bytes.Buffer
	if _, err := pk.WriteTo(&pb); err != nil {
		panic(err)
	}
	if _, err := sk.WriteTo(&sb); err != nil {
		panic(err)
	}
	dec := regexp.MustCompile(`^[0-9]+$`)
	for _, m := range xmlMutations(pb.String()) {
		id := "pub:" + m.id
		if !wanted(s.OnlyFault, id) {
			continue
		}
		r.Eval(1)
		r.Fault("disk:bit-rot")
		var k *gabikeys.PublicKey
		var err error
		if p, fr := guardFrame(func() { k, err = gabikeys.NewPublicKeyFromBytes([]byte(m.text)) }); p != "" {
			r.Violate("C18:panic:"+fr, map[string]any{"fault": id}, "%s: reading the public key document panics: %s", id, p)
			continue
		}
		if err != nil {
			r.Probe("bitrot-refused")
			continue
		}
		r.Probe("bitrot-accepted")
		det := map[string]any{"fault": id}
		if k.N == nil || k.Z == nil || k.S == nil {
			r.Violate("C18:key-without-mandatory-element-accepted", det, "%s: public key accepted with n/Z/S missing (n=%v Z=%v S=%v)", id, k.N != nil, k.Z != nil, k.S != nil)
			continue
		}
		for name, v := range map[string]*big.Int{"n": k.N, "Z": k.Z, "S": k.S, "G": k.G, "H": k.H} {
			if v != nil && v.Sign() < 0 {
				r.Violate("C18:negative-number-accepted", det, "%s: element %s read as a negative number", id, name)
			}
		}
		for i, b := range k.R {
			if b == nil || b.Sign() < 0 {
				r.Violate("C18:negative-number-accepted", det, "%s: base %d read as negative or missing", id, i)
			}
		}
		if k.Params == nil {
			r.Violate("C18:unsupported-modulus-accepted", det, "%s: key accepted without system parameters", id)
		}
		// the base list of an accepted document: R[i] is what the element named Base_i says, nothing else
		// counts as a base, and there is at least the base of the secret key
		if len(k.R) == 0 {
			r.Violate("C18:key-without-mandatory-element-accepted", det, "%s: public key accepted without any base", id)
			continue
		}
		if k.EpochLength < 0 {
			r.Violate("C18:negative-number-accepted", det, "%s: epoch length read as %d", id, k.EpochLength)
		}
		if !strings.HasPrefix(m.id, "duplicate:") {
			named := map[int]string{}
			bad := ""
			if bm := regexp.MustCompile(`(?s)<Bases num="([^"]*)">(.*)</Bases>`).FindStringSubmatch(m.text); bm != nil {
				for _, em := range elemRe.FindAllStringSubmatch(bm[2], -1) {
					var idx int
					if n, err := fmt.Sscanf(em[1], "Base_%d", &idx); n != 1 || err != nil || idx < 0 || fmt.Sprintf("Base_%d", idx) != em[1] {
						bad = "element " + em[1] + " is not a base"
						continue
					}
					if _, dup := named[idx]; dup {
						bad = fmt.Sprintf("number %d occurs twice", idx)
					}
					named[idx] = strings.TrimSpace(em[3])
				}
				if fmt.Sprint(len(named)) != bm[1] && bad == "" {
					bad = "num attribute " + bm[1] + " does not match"
				}
			}
			for i := range k.R {
				if v, ok := named[i]; !ok {
					bad = fmt.Sprintf("number %d missing", i)
				} else if bad == "" && (k.R[i] == nil || k.R[i].String() != v) {
					bad = fmt.Sprintf("R[%d] is not what the element Base_%d says", i, i)
				}
			}
			if len(named) != len(k.R) && bad == "" {
				bad = fmt.Sprintf("%d base elements, %d bases", len(named), len(k.R))
			}
			if bad != "" {
				r.Violate("C18:base-list-read-differs-from-document", det, "%s: accepted although %s", id, bad)
			}
		}
		// whatever is accepted must be exactly what the document says
		for _, em := range elemRe.FindAllStringSubmatch(m.text, -1) {
			name, content := em[1], strings.TrimSpace(em[3])
			var got *big.Int
			switch {
			case name == "n":
				got = k.N
			case name == "Z":
				got = k.Z
			case name == "S":
				got = k.S
			case name == "G":
				got = k.G
			case name == "H":
				got = k.H
			default:
				continue
			}
			if !dec.MatchString(content) || got == nil || got.String() != content {
				// duplicated elements: the last one wins in encoding/xml; accept either copy
				if strings.HasPrefix(m.id, "duplicate:") {
					continue
				}
				r.Violate("C18:key-read-differs-from-document", det, "%s: element %s says %.20s..., key has %v", id, name, content, got)
			}
		}
	}
	for _, m := range xmlMutations(sb.String()) {
		for _, demo := range []bool{false, true} {
			id := fmt.Sprintf("priv(demo=%v):%s", demo, m.id)
			if !wanted(s.OnlyFault, id) {
				continue
			}
			r.Eval(1)
			r.Fault("disk:bit-rot")
			var k *gabikeys.PrivateKey
			var err error
			if p, fr := guardFrame(func() { k, err = gabikeys.NewPrivateKeyFromXML(m.text, demo) }); p != "" {
				r.Violate("C18:panic:"+fr, map[string]any{"fault": id}, "%s: reading the private key document panics: %s", id, p)
				continue
			}
			if err != nil {
				r.Probe("bitrot-refused")
				continue
			}
			r.Probe("bitrot-accepted")
			det := map[string]any{"fault": id}
			if k.P == nil || k.Q == nil || k.PPrime == nil || k.QPrime == nil {
				r.Violate("C18:key-without-mandatory-element-accepted", det, "%s: private key accepted with a prime missing", id)
				continue
			}
			if k.P.Sign() < 0 || k.Q.Sign() < 0 || k.PPrime.Sign() < 0 || k.QPrime.Sign() < 0 {
				r.Violate("C18:negative-number-accepted", det, "%s", id)
			}
			if !demo {
				if k.Validate() != nil {
					r.Violate("C18:inconsistent-private-key-accepted", det, "%s: accepted outside demo mode although Validate() fails", id)
				}
				if k.P.Cmp(k.Q) == 0 {
					r.Violate("C18:inconsistent-private-key-accepted", det, "%s: accepted outside demo mode with p = q", id)
				}
				if _, ok := gabikeys.DefaultSystemParameters[new(big.Int).Mul(k.P, k.Q).BitLen()]; !ok {
					r.Violate("C18:unsupported-modulus-accepted", det, "%s: private key with a modulus of %d bits accepted outside demo mode", id, new(big.Int).Mul(k.P, k.Q).BitLen())
				}
			}
		}
	}
}

// --- scenario 2: file histories on the real file system
var fsCounter int

var ignoreXFSZ sync.Once

// limitFileSize makes every write that would grow a file beyond n bytes fail with EFBIG (the process-wide
// soft RLIMIT_FSIZE; SIGXFSZ ignored) until the returned function is called. Nothing else in a check
// process writes files while a run executes.
func limitFileSize(n uint64) func() {
	ignoreXFSZ.Do(func() { signal.Ignore(syscall.SIGXFSZ) })
	var old syscall.Rlimit
	if err := syscall.Getrlimit(syscall.RLIMIT_FSIZE, &old); err != nil {
		panic(err)
	}
	if err := syscall.Setrlimit(syscall.RLIMIT_FSIZE, &syscall.Rlimit{Cur: n, Max: old.Max}); err != nil {
		panic(err)
	}
	return func() {
		if err := syscall.Setrlimit(syscall.RLIMIT_FSIZE, &old); err != nil {
			panic(err)
		}
	}
}

func c18Files(r *kernel.Run, s C18Spec, sk *gabikeys.PrivateKey, pk *gabikeys.PublicKey) {
	fsCounter++
	dir := filepath.Join(os.TempDir(), fmt.Sprintf("gabi-verif-c18-%d-%d", os.Getpid(), fsCounter))
	if base := os.Getenv("VERIF_FSDIR"); base != "" {
		dir = filepath.Join(base, fmt.Sprintf("fs-%d-%d", os.Getpid(), fsCounter))
	}
	if err := os.MkdirAll(dir, 0o700); err != nil {
		panic(err)
	}
	defer os.RemoveAll(dir)
	old := syscall.Umask(s.Umask)
	defer syscall.Umask(old)
	path := filepath.Join(dir, "key.xml")
	target := filepath.Join(dir, "target.xml")
	mk := func(p string, mode os.FileMode) {
		if err := os.WriteFile(p, []byte("previous content"), 0o600); err != nil {
			panic(err)
		}
		if err := os.Chmod(p, mode); err != nil {
			panic(err)
		}
	}
	switch s.Prior {
	case 1:
		mk(path, 0o644)
	case 2:
		mk(path, 0o666)
	case 3:
		mk(path, 0o400)
	case 4:
		mk(target, 0o644)
		if err := os.Symlink(target, path); err != nil {
			panic(err)
		}
	case 5:
		if err := os.Symlink(filepath.Join(dir, "missing.xml"), path); err != nil {
			panic(err)
		}
	}
	r.Distinct(fmt.Sprintf("files prior=%d umask=%o ops=%v", s.Prior, s.Umask, s.Ops))
	holdsPrivate := false
	for i, op := range s.Ops {
		step := fmt.Sprintf("op%d", i)
		switch op.Kind {
		case 0, 1:
			_, statErr := os.Stat(path) // follows symlinks: does the write target exist
			_, lstatErr := os.Lstat(path)
			existed := lstatErr == nil
			before, _ := os.ReadFile(path)
			var err error
			r.Eval(1)
			restore := func() {}
			if op.Limit > 0 {
				restore = limitFileSize(uint64(op.Limit - 1))
				r.Fault("disk:file-size-limit")
			}
			if op.Kind == 0 {
				_, err = sk.WriteToFile(path, op.Force)
			} else {
				_, err = pk.WriteToFile(path, op.Force)
			}
			restore()
			r.Logf("%s write kind=%d force=%v existed=%v limit=%d err=%v", step, op.Kind, op.Force, existed, op.Limit, err != nil)
			det := map[string]any{"prior": s.Prior, "force": op.Force, "private": op.Kind == 0}
			if op.Limit > 0 && (op.Force || !existed) {
				// the write may fail part-way; whatever it left behind, private key material must not be
				// readable by group or others, and a write that reports success must read back
				det["disk_fault"] = true
				if op.Kind == 0 {
					if st, serr := os.Stat(path); serr == nil && st.Mode().Perm()&0o077 != 0 && st.Size() > 0 {
						r.Violate("C18:private-key-file-readable-by-others", det, "%s: mode %o on a %d-byte file left behind by a private-key write that hit a file size limit of %d bytes (err=%v; prior state %d, umask %o)", step, st.Mode().Perm(), st.Size(), op.Limit-1, err, s.Prior, s.Umask)
					}
				}
				if err != nil {
					r.Probe("write-failed-part-way")
					holdsPrivate = false
					continue
				}
			}
			if !op.Force && existed {
				if err == nil {
					r.Violate("C18:existing-file-overwritten-without-force", det, "%s: WriteToFile(force=false) overwrote an existing path", step)
				} else if after, _ := os.ReadFile(path); statErr == nil && !bytes.Equal(before, after) {
					r.Violate("C18:existing-file-changed-by-refused-write", det, "%s", step)
				}
				continue
			}
			if err != nil {
				r.Violate("C18:key-file-write-failed", det, "%s: %v", step, err)
				continue
			}
			st, serr := os.Stat(path)
			if serr != nil {
				r.Violate("C18:key-file-missing-after-write", det, "%s: %v", step, serr)
				continue
			}
			if op.Kind == 0 {
				holdsPrivate = true
				if st.Mode().Perm()&0o077 != 0 {
					r.Violate("C18:private-key-file-readable-by-others", det, "%s: mode %o after WriteToFile (prior state %d, umask %o, force %v)", step, st.Mode().Perm(), s.Prior, s.Umask, op.Force)
				}
				k2, rerr := gabikeys.NewPrivateKeyFromFile(path, false)
				if rerr != nil {
					r.Violate("C18:key-reread-failed", map[string]any{"which": "private-file"}, "%s: %v", step, rerr)
				} else if d := samePriv(sk, k2); d != "" {
					r.Violate("C18:key-round-trip-differs", map[string]any{"which": "private-file", "field": d}, "%s: field %s", step, d)
				}
			} else {
				holdsPrivate = false
				k2, rerr := gabikeys.NewPublicKeyFromFile(path)
				if rerr != nil {
					r.Violate("C18:key-reread-failed", map[string]any{"which": "public-file"}, "%s: %v", step, rerr)
				} else if d := samePub(pk, k2); d != "" {
					r.Violate("C18:key-round-trip-differs", map[string]any{"which": "public-file", "field": d}, "%s: field %s", step, d)
				}
			}
		case 2:
			// the operator loosens the mode; only a later private-key write has to tighten it again
			if _, err := os.Stat(path); err == nil {
				_ = os.Chmod(path, os.FileMode(op.Mode))
				r.Fault("operator-chmod")
				holdsPrivate = false
			}
		case 3:
			_ = os.Remove(path)
			mk(target, os.FileMode(op.Mode))
			if err := os.Symlink(target, path); err == nil {
				r.Fault("replaced-by-symlink")
			}
			holdsPrivate = false
		case 4:
			_ = os.Remove(path)
			holdsPrivate = false
			r.Fault("deleted")
		}
	}
	_ = holdsPrivate
}

// --- scenario 3: big integers over boundary byte lengths
func c18Integers(r *kernel.Run, s C18Spec) {
	hr := hrand(s.ValSeed, 18)
	var vals []*big.Int
	for _, k := range []uint{0, 1, 7, 8, 9, 15, 16, 63, 64, 255, 256, 257, 1023, 1024, 2048, 4095} {
		p := pow2(k)
		vals = append(vals, p, new(big.Int).Sub(p, big.NewInt(1)), new(big.Int).Add(p, big.NewInt(1)))
	}
	vals = append(vals, big.NewInt(0), randBits(hr, 1+hr.IntN(3000)), randBits(hr, 8*(1+hr.IntN(64))))
	type wrap struct {
		V *big.Int `json:"v" xml:"v"`
	}
	for _, v := range vals {
		r.Eval(3)
		r.Distinct(fmt.Sprintf("int bitlen=%d", v.BitLen()))
		// JSON
		b, err := json.Marshal(wrap{v})
		var w wrap
		if err != nil || json.Unmarshal(b, &w) != nil || w.V == nil || w.V.Cmp(v) != 0 {
			r.Violate("C18:integer-round-trip:json", nil, "value of %d bits: %v", v.BitLen(), err)
		}
		// JSON decimal form is accepted as well
		var w2 wrap
		if err := json.Unmarshal([]byte(`{"v":`+v.String()+`}`), &w2); err != nil || w2.V.Cmp(v) != 0 {
			r.Violate("C18:integer-round-trip:json-decimal", nil, "value of %d bits: %v", v.BitLen(), err)
		}
		// base64 with leading zero bytes means the same number
		lead := append([]byte{0, 0}, v.Bytes()...)
		lb, _ := json.Marshal(lead)
		var w3 wrap
		if err := json.Unmarshal([]byte(`{"v":`+string(lb)+`}`), &w3); err != nil || w3.V.Cmp(v) != 0 {
			r.Violate("C18:integer-round-trip:json-leading-zeros", nil, "value of %d bits: %v", v.BitLen(), err)
		}
		// XML
		xb, err := xml.Marshal(wrap{v})
		var xw wrap
		if err != nil || xml.Unmarshal(xb, &xw) != nil || xw.V == nil || xw.V.Cmp(v) != 0 {
			r.Violate("C18:integer-round-trip:xml", nil, "value of %d bits: %v", v.BitLen(), err)
		}
		// CBOR
		cb, err := cbor.Marshal(wrap{v}, cbor.EncOptions{})
		var cw wrap
		if err != nil || cbor.Unmarshal(cb, &cw) != nil || cw.V == nil || cw.V.Cmp(v) != 0 {
			r.Violate("C18:integer-round-trip:cbor", nil, "value of %d bits: %v", v.BitLen(), err)
		}
		// negative values: refused by the text encodings, never silently altered
		if v.Sign() > 0 {
			neg := new(big.Int).Neg(v)
			r.Fault("negative-integer")
			if nb, err := json.Marshal(wrap{neg}); err == nil {
				var nw wrap
				if json.Unmarshal(nb, &nw) == nil && nw.V != nil && nw.V.Cmp(neg) != 0 {
					r.Violate("C18:negative-integer-altered:json", nil, "-%d-bit value encoded without error and read back as a different number", v.BitLen())
				}
			}
			var nw wrap
			if err := json.Unmarshal([]byte(`{"v":-`+v.String()+`}`), &nw); err == nil {
				r.Violate("C18:negative-integer-accepted:json-decimal", nil, "negative decimal accepted")
			}
			if nx, err := xml.Marshal(wrap{neg}); err == nil {
				var xw wrap
				if xml.Unmarshal(nx, &xw) == nil && xw.V != nil {
					r.Violate("C18:negative-integer-accepted:xml", nil, "negative value survives an XML round trip as %v", xw.V.Sign())
				}
			}
		}
	}
}

// --- scenario 4: shadow verification — the receiver's verdict on the decoded message equals the sender's on its object
func c18Shadow(r *kernel.Run, s C18Spec) {
	if p := kernel.InBubble(r.T, func() { c18ShadowBubble(r, s) }); p != nil {
		panic(p)
	}
}

func c18ShadowBubble(r *kernel.Run, s C18Spec) {
	kernel.SeedLibrary(r.T, s.LibSeed)
	w := newWorld(r, s.ValSeed)
	key := kernel.GetKey(kernel.KeyNames(256)[int(s.ValSeed%3)])
	pk := key.Pk
	secret := newSecret()
	ctx, nonce := randBits(w.hr, 200), randBits(w.hr, 80)
	for variant := 0; variant < 8; variant++ {
		nonrev, rng, iss := variant&1 != 0, variant&2 != 0, variant&4 != 0
		bs := []BuilderSpec{{NAttrs: 3, Mask: 1, Nonrev: nonrev, Range: rng}}
		if iss {
			bs = append(bs, BuilderSpec{Issuance: true, Blind: []int{1}})
		}
		sess := w.BuildSession([]*kernel.Key{key}, []*big.Int{secret}, bs, ctx, nonce, variant%3 == 0)
		r.Eval(1)
		r.Distinct(fmt.Sprintf("shadow prooflist nonrev=%v range=%v issuance=%v", nonrev, rng, iss))
		// sender's own verdict on a private copy of its objects, receiver's on the decoded bytes
		v1 := verifyWire(sess.Wire, sess.Sess)
		var pl gabi.ProofList
		mustUnmarshal(sess.Wire, &pl)
		re := mustJSON(pl)
		v2 := verifyWire(re, sess.Sess)
		det := map[string]any{"variant": variant}
		switch {
		case v1.Accepted != v2.Accepted:
			r.Violate("C18:proof-list-verdict-changes-over-round-trip", det, "variant %d: verdicts %v / %v", variant, v1.Accepted, v2.Accepted)
		case !v1.Accepted && (v1.Ambiguous || v2.Ambiguous):
			// rejected before and after the round trip alike: the round trip preserved the meaning. (The
			// rejection itself is the ambiguous revocation index, judged by C11 and recorded there.)
			r.Probe("honest-list-rejected-both-ways(judged by C11)")
		case !v1.Accepted:
			r.Violate("C18:honest-proof-list-rejected", det, "variant %d: the honest list is rejected before and after the round trip", variant)
		}
		if string(re) != string(sess.Wire) {
			r.Violate("C18:proof-list-reencoding-differs", map[string]any{"variant": variant}, "variant %d: decode+encode is not the identity", variant)
		}
	}
	// revocation messages
	ra := w.RA(key)
	for i := 0; i < 3; i++ {
		o, _ := revocation.RandomWitness(key.Sk, ra.Accs[ra.Head()])
		if err := ra.Revoke(o.E); err != nil {
			panic(err)
		}
	}
	wit, _ := ra.NewWitness(1)
	for _, win := range [][2]int{{0, 3}, {2, 3}, {3, 3}, {4, 3}} {
		u, err := ra.Update(win[0], win[1])
		if err != nil {
			panic(err)
		}
		r.Eval(2)
		r.Distinct(fmt.Sprintf("shadow update window=%v", win))
		for codec := 1; codec <= 2; codec++ {
			u2, err := transportUpdate(u, codec)
			if err != nil {
				r.Violate("C18:update-not-transportable", map[string]any{"codec": codec}, "%v", err)
				continue
			}
			_, e1 := u.Verify(pk)
			_, e2 := u2.Verify(pk)
			if (e1 == nil) != (e2 == nil) {
				r.Violate("C18:update-verdict-changes-over-round-trip", map[string]any{"codec": codec}, "window %v: %v / %v", win, e1, e2)
			}
			w1 := &revocation.Witness{U: wit.U, E: wit.E, SignedAccumulator: &revocation.SignedAccumulator{Data: wit.SignedAccumulator.Data, PKCounter: wit.SignedAccumulator.PKCounter}}
			w2 := &revocation.Witness{U: wit.U, E: wit.E, SignedAccumulator: &revocation.SignedAccumulator{Data: wit.SignedAccumulator.Data, PKCounter: wit.SignedAccumulator.PKCounter}}
			if w1.Verify(pk) != nil || w2.Verify(pk) != nil {
				panic("witness copy invalid")
			}
			ea, eb := w1.Update(pk, u), w2.Update(pk, u2)
			if (ea == nil) != (eb == nil) || witSnap(w1) != witSnap(w2) {
				r.Violate("C18:witness-update-differs-over-round-trip", map[string]any{"codec": codec}, "window %v: %v / %v", win, ea, eb)
			}
		}
	}
	// witness and credential blobs
	hc := w.NewCred(key, secret, []int{2, 5, 8}, true)
	var c2 gabi.Credential
	mustUnmarshal(mustJSON(hc.Cred), &c2)
	c2.Pk = pk
	r.Eval(1)
	if err := c2.NonRevocationWitness.Verify(pk); err != nil {
		r.Violate("C18:witness-invalid-after-round-trip", nil, "%v", err)
	} else if !c2.Signature.Verify(pk, c2.Attributes) {
		r.Violate("C18:credential-invalid-after-round-trip", nil, "signature of a reloaded credential does not verify")
	}
}

func TestC18(t *testing.T) {
	RunProp(t, Prop[C18Spec]{ID: "C18", Draw: drawC18, Exec: execC18,
		Minimise: func(s C18Spec, v kernel.Violation) C18Spec {
			if f, ok := v.Details["fault"].(string); ok {
				s.OnlyFault = []string{f}
			}
			return s
		}})
}
