// Package checks holds one seeded simulation check per property (TestCxx).
//
// Every check has the same shape: a rapid-drawn *spec* (run parameters, library
// seed, workload, fault plan, schedule) is handed to a deterministic *executor*
// that runs real gabi code and returns violations. The spec is plain JSON, so
// the minimised spec of a failing run is the replay file.
package checks

import (
	"encoding/json"
	"flag"
	"fmt"
	"os"
	"path/filepath"
	"runtime/debug"
	"sync/atomic"
	"testing"
	"time"

	"github.com/privacybydesign/gabi"

	"pgregory.net/rapid"

	"verif/sim/kernel"
)

var (
	flagOut    = flag.String("verif.out", "", "write shard statistics (JSON) here")
	flagReplay = flag.String("verif.replay", "", "replay this spec file instead of exploring")
	flagTier   = flag.String("verif.tier", "quick", "quick|thorough")
	flagKnown  = flag.String("verif.known", "", "path of known_findings.jsonl")
	flagRepDir = flag.String("verif.replaydir", "", "directory to write replay files into")
	flagKeys   = flag.String("verif.keys", "", "key directory")
	flagBudget = flag.Duration("verif.budget", 0, "wall-clock budget for exploration in this process (0 = rapid.checks decides)")
	flagShard  = flag.Int("verif.shard", 0, "index of this process among the shards of a run")
	flagShards = flag.Int("verif.nshards", 1, "number of shards of a run")
)

func thorough() bool { return *flagTier == "thorough" }

// The library's hook variables are written exactly once per process (before any test runs). Runs
// switch hooks on and off through an atomic pointer: library goroutines that are still winding
// down from an earlier run may read the hook variables at any time, and re-installing them per run
// would be a (harness-made) data race with those readers.
type hookSet struct {
	yield   func(string)
	spawned func(string)
	exited  func(string)
	buggify func(string) bool
}

var activeHooks atomic.Pointer[hookSet]

func setHooks(h *hookSet) { activeHooks.Store(h) }

func installDispatchHooks() {
	gabi.VerifInstallHooks(gabi.VerifHooks{
		Yield: func(site string) {
			if h := activeHooks.Load(); h != nil && h.yield != nil {
				h.yield(site)
			}
		},
		Spawned: func(name string) {
			if h := activeHooks.Load(); h != nil && h.spawned != nil {
				h.spawned(name)
			}
		},
		Exited: func(name string) {
			if h := activeHooks.Load(); h != nil && h.exited != nil {
				h.exited(name)
			}
		},
		Buggify: func(site string) bool {
			if h := activeHooks.Load(); h != nil && h.buggify != nil {
				return h.buggify(site)
			}
			return false
		},
	})
}

func TestMain(m *testing.M) {
	flag.Parse()
	installDispatchHooks()
	if *flagKeys != "" {
		kernel.KeyDir = *flagKeys
	}
	if err := kernel.LoadKnown(*flagKnown); err != nil {
		fmt.Fprintln(os.Stderr, "cannot load known findings:", err)
		os.Exit(2)
	}
	os.Exit(m.Run())
}

// Prop couples the drawing and the executing half of a check.
type Prop[S any] struct {
	ID   string
	Draw func(rt *rapid.T) S
	// Exec must be a pure function of spec and the code under test.
	Exec func(r *kernel.Run, spec S)
	// Minimise optionally narrows a failing spec using the first violation's details
	// (fault enumeration: keep only the fault that fired).
	Minimise func(spec S, v kernel.Violation) S
	// Enumerate optionally lists a finite sub-space that the thorough tier walks completely
	// (each shard takes the indices congruent to its shard number) before the seeded search.
	EnumCount func() int
	EnumSpec  func(i int) S
}

type replayFile struct {
	Property string          `json:"property"`
	Class    string          `json:"class"`
	LogHash  string          `json:"log_hash"`
	Msg      string          `json:"msg"`
	Details  map[string]any  `json:"details"`
	Spec     json.RawMessage `json:"spec"`
	Log      []string        `json:"log"`
}

// execOnce runs the executor under a panic guard: a panic inside the harness or
// the library outside a guarded receiver is a harness error, not a violation.
func execOnce[S any](t *testing.T, p Prop[S], st *kernel.Stats, spec S) (r *kernel.Run) {
	r = kernel.NewRun(t, p.ID, st)
	defer func() {
		if e := recover(); e != nil {
			r.Logf("HARNESS-PANIC %v", e)
			fmt.Fprintf(os.Stderr, "HARNESS-PANIC property=%s: %v\n%s\n", p.ID, e, debug.Stack())
			harnessPanics++
		}
		r.Finish()
	}()
	p.Exec(r, spec)
	return r
}

var harnessPanics int

// RunProp explores (rapid) or replays one property.
func RunProp[S any](t *testing.T, p Prop[S]) {
	st := kernel.NewStats(p.ID)
	start := time.Now()
	defer func() {
		if *flagOut != "" {
			st.Notes = append(st.Notes, fmt.Sprintf("wall_s=%.1f harness_panics=%d", time.Since(start).Seconds(), harnessPanics))
			if err := st.Write(*flagOut); err != nil {
				fmt.Fprintln(os.Stderr, "cannot write stats:", err)
			}
		}
		if harnessPanics > 0 {
			// exit code 2 is produced by the wrapper from this marker; never a VIOLATION
			fmt.Println("HARNESS-ERROR property=" + p.ID)
		}
	}()

	if *flagReplay != "" {
		replay(t, p, st)
		return
	}

	var target string
	var lastFail *kernel.Run
	var lastSpec S
	others := map[string]bool{}
	deadline := time.Time{}
	if *flagBudget > 0 {
		deadline = start.Add(*flagBudget)
	}

	defer func() {
		// runs when rapid.Check fails the test (Goexit) as well as on success
		if lastFail != nil {
			v := lastFail.Viol[0]
			spec := lastSpec
			if p.Minimise != nil {
				spec2 := p.Minimise(spec, v)
				// confirm the narrowed spec still fails the same way; otherwise keep the rapid-minimised one
				r2 := execOnce(t, p, kernel.NewStats(p.ID), spec2)
				if len(r2.Viol) > 0 && r2.Viol[0].Class == v.Class {
					spec, lastFail, v = spec2, r2, r2.Viol[0]
				}
			}
			writeReplay(p.ID, st, spec, lastFail, v)
		}
	}()

	if p.EnumCount != nil && thorough() {
		n, done, complete := p.EnumCount(), 0, true
		for i := *flagShard; i < n; i += *flagShards {
			if !deadline.IsZero() && time.Now().After(deadline) {
				complete = false
				break
			}
			spec := p.EnumSpec(i)
			r := execOnce(t, p, st, spec)
			done++
			if len(r.Viol) > 0 {
				writeReplay(p.ID, st, spec, r, r.Viol[0])
				t.Errorf("violation %s in enumerated case %d: %s", r.Viol[0].Class, i, r.Viol[0].Msg)
				return
			}
		}
		st.Probes["enumerated-cases-of-this-shard"] = done
		st.Probes["enumerated-space-size"] = n
		if complete {
			st.Probes["enumeration-complete-in-this-shard"] = 1
		}
		// the seeded search gets a budget of its own
		if *flagBudget > 0 {
			deadline = time.Now().Add(*flagBudget / 2)
		}
	}
	rapid.Check(t, func(rt *rapid.T) {
		spec := p.Draw(rt)
		if !deadline.IsZero() && time.Now().After(deadline) && target == "" {
			return // budget exhausted: remaining iterations are no-ops (counted by rapid, not by us)
		}
		r := execOnce(t, p, st, spec)
		if len(r.Viol) == 0 {
			return
		}
		cls := r.Viol[0].Class
		if os.Getenv("VERIF_SURVEY") != "" {
			// triage mode: list every class met, never fail
			for _, v := range r.Viol {
				if st.Probes["SURVEY "+v.Class] == 0 {
					fmt.Printf("SURVEY %s :: %s\n", v.Class, v.Msg)
				}
				st.Probes["SURVEY "+v.Class]++
			}
			return
		}
		if target == "" {
			target = cls
		}
		if cls != target {
			// a different violation class met while shrinking: report it on its own, unminimised
			if !others[cls] {
				others[cls] = true
				writeReplay(p.ID, st, spec, r, r.Viol[0])
			}
			return
		}
		lastFail, lastSpec = r, spec
		rt.Fatalf("violation %s: %s", cls, r.Viol[0].Msg)
	})
}

func writeReplay[S any](id string, st *kernel.Stats, spec S, r *kernel.Run, v kernel.Violation) {
	sb, _ := json.Marshal(spec)
	v.Spec = sb
	v.LogHash = r.LogHash()
	if *flagRepDir != "" {
		name := fmt.Sprintf("%s-%s.json", sanitize(v.Class), v.LogHash)
		path := filepath.Join(*flagRepDir, name)
		rf := replayFile{Property: id, Class: v.Class, LogHash: v.LogHash, Msg: v.Msg, Details: v.Details, Spec: sb, Log: r.Log}
		if len(rf.Log) > 400 {
			rf.Log = rf.Log[len(rf.Log)-400:]
		}
		bts, _ := json.MarshalIndent(rf, "", " ")
		_ = os.MkdirAll(*flagRepDir, 0755)
		if err := os.WriteFile(path, bts, 0644); err == nil {
			v.Replay = path
		}
	}
	st.Violations = append(st.Violations, v)
}

func sanitize(s string) string {
	out := []rune(s)
	for i, c := range out {
		if !(c >= 'a' && c <= 'z' || c >= 'A' && c <= 'Z' || c >= '0' && c <= '9' || c == '-' || c == '.') {
			out[i] = '_'
		}
	}
	if len(out) > 80 {
		out = out[:80]
	}
	return string(out)
}

// replay re-executes a stored spec in this fresh process and compares class and log hash.
func replay[S any](t *testing.T, p Prop[S], st *kernel.Stats) {
	bts, err := os.ReadFile(*flagReplay)
	if err != nil {
		fmt.Println("REPLAY-ERROR cannot read", *flagReplay, err)
		t.FailNow()
	}
	var rf replayFile
	if err := json.Unmarshal(bts, &rf); err != nil {
		fmt.Println("REPLAY-ERROR bad replay file:", err)
		t.FailNow()
	}
	var spec S
	if err := json.Unmarshal(rf.Spec, &spec); err != nil {
		fmt.Println("REPLAY-ERROR bad spec:", err)
		t.FailNow()
	}
	r := execOnce(t, p, st, spec)
	if len(r.Viol) == 0 {
		fmt.Printf("REPLAY property=%s result=no-violation expected=%s\n", p.ID, rf.Class)
		return
	}
	v := r.Viol[0]
	same := "same"
	if r.LogHash() != rf.LogHash {
		same = "different"
	}
	fmt.Printf("REPLAY property=%s result=violation class=%s expected=%s log=%s\n  %s\n", p.ID, v.Class, rf.Class, same, v.Msg)
	writeReplay(p.ID, st, spec, r, v)
	t.Fail()
}

// guard runs f, a call into the library on behalf of a party, and returns the
// panic message (first line) if it panics: a receiver that crashes is an
// observable outcome the properties talk about, not a harness error.
func guard(f func()) (msg string) {
	defer func() {
		if e := recover(); e != nil {
			msg = fmt.Sprint(e)
			if msg == "" {
				msg = "panic"
			}
		}
	}()
	f()
	return ""
}

// guardFrame is guard plus the innermost gabi function on the panicking stack
// (used to name violation classes by call site, never by value).
func guardFrame(f func()) (msg, frame string) {
	defer func() {
		if e := recover(); e != nil {
			msg = fmt.Sprint(e)
			if msg == "" {
				msg = "panic"
			}
			frame = topGabiFrame(string(debug.Stack()))
		}
	}()
	f()
	return "", ""
}

func topGabiFrame(stack string) string {
	const mod = "github.com/privacybydesign/gabi"
	lines := splitLines(stack)
	seenPanic := false
	for _, l := range lines {
		if len(l) >= 6 && l[:6] == "panic(" {
			seenPanic = true
			continue
		}
		if !seenPanic || len(l) == 0 || l[0] == '\t' {
			continue
		}
		if i := indexOf(l, mod); i >= 0 {
			fn := l[i+len(mod):]
			if k := lastIndexOf(fn, "("); k > 0 {
				fn = fn[:k]
			}
			for len(fn) > 0 && (fn[0] == '/' || fn[0] == '.') {
				fn = fn[1:]
			}
			if len(fn) >= 4 && fn[:4] == "big." {
				continue // thin wrappers around math/big: blame the caller
			}
			return fn
		}
	}
	return "unknown"
}

func splitLines(s string) []string {
	var out []string
	start := 0
	for i := 0; i < len(s); i++ {
		if s[i] == '\n' {
			out = append(out, s[start:i])
			start = i + 1
		}
	}
	return append(out, s[start:])
}

func indexOf(s, sub string) int {
	for i := 0; i+len(sub) <= len(s); i++ {
		if s[i:i+len(sub)] == sub {
			return i
		}
	}
	return -1
}

func lastIndexOf(s, sub string) int {
	for i := len(s) - len(sub); i >= 0; i-- {
		if s[i:i+len(sub)] == sub {
			return i
		}
	}
	return -1
}

// markPending records, before a delivery that may crash the whole process (a panic in a
// goroutine the library itself started cannot be recovered by the receiver shell), which spec and
// fault is in flight. If the process dies the wrapper turns the marker into a violation with a
// replay file; clearPending removes it after the delivery returned.
func markPending(property string, spec any, fault string) {
	if *flagOut == "" {
		return
	}
	sb, _ := json.Marshal(spec)
	rf := replayFile{Property: property, Class: property + ":receiver-process-crashed", Msg: "process died while delivering fault " + fault, Details: map[string]any{"fault": fault}, Spec: sb}
	bts, _ := json.Marshal(rf)
	_ = os.WriteFile(*flagOut+".pending", bts, 0644)
}

func clearPending() {
	if *flagOut != "" {
		_ = os.Remove(*flagOut + ".pending")
	}
}
