package checks

import (
	"crypto/sha256"
	"fmt"
	"testing"

	"github.com/privacybydesign/gabi"
	"github.com/privacybydesign/gabi/big"
	"pgregory.net/rapid"

	"verif/sim/kernel"
)

// C05 — CL signatures: valid ones verify, invalid ones never do.
//
// World: issuer <-> holder. The honest issuer signs message blocks (real
// SignMessageBlock), the holder randomises repeatedly and re-verifies. A
// Byzantine issuer (it has the private key) forges signatures that satisfy the
// signature equation but carry an exponent e outside its interval, composite,
// or small, and delivers them in an IssueSignatureMessage with a matching proof
// of correctness; single components are altered in transit; signatures are
// checked against other blocks, keys and keyshare contributions. Weak fit for a
// simulator (a pure function reached through the issuance message) — said so in DESIGN.

type C05Spec struct {
	Key       string   `json:"key"`
	OtherKey  string   `json:"other_key"`
	LibSeed   uint64   `json:"lib_seed"`
	ValSeed   uint64   `json:"val_seed"`
	Classes   []int    `json:"classes"` // block including the secret position
	Rerand    int      `json:"rerand"`
	OnlyFault []string `json:"only_fault,omitempty"`
}

func drawC05(rt *rapid.T) C05Spec {
	s := C05Spec{LibSeed: rapid.Uint64().Draw(rt, "libseed"), ValSeed: rapid.Uint64().Draw(rt, "valseed")}
	s.Key = drawKeyName(rt, "key")
	k := kernel.GetKey(s.Key)
	s.OtherKey = rapid.SampledFrom(kernel.KeyNames(k.Bits)).Draw(rt, "otherkey")
	n := rapid.IntRange(1, len(k.Pk.R)).Draw(rt, "len")
	for i := 0; i < n; i++ {
		s.Classes = append(s.Classes, rapid.IntRange(0, nValueClasses-1).Draw(rt, "class"))
	}
	s.Rerand = rapid.IntRange(1, 4).Draw(rt, "rerand")
	return s
}

// forge computes A such that Z = A^e * R(ms) * S^v holds for the chosen e (possible with the private key
// whenever e is invertible modulo the group order).
func forge(key *kernel.Key, ms []*big.Int, e, v *big.Int) (*gabi.CLSignature, bool) {
	pk, sk := key.Pk, key.Sk
	R, _ := gabi.RepresentToPublicKey(pk, ms)
	num := new(big.Int).Exp(pk.S, v, pk.N)
	num.Mul(num, R).Mod(num, pk.N)
	inv := new(big.Int).ModInverse(num, pk.N)
	if inv == nil {
		return nil, false
	}
	Q := new(big.Int).Mul(pk.Z, inv)
	Q.Mod(Q, pk.N)
	d := new(big.Int).ModInverse(e, sk.Order)
	if d == nil {
		return nil, false
	}
	A := new(big.Int).Exp(Q, d, pk.N)
	// sanity: equation holds
	chk := new(big.Int).Exp(A, e, pk.N)
	chk.Mul(chk, num).Mod(chk, pk.N)
	if chk.Cmp(pk.Z) != 0 {
		panic("forged signature does not satisfy the equation")
	}
	return &gabi.CLSignature{A: A, E: e, V: v}, true
}

func nextPrime(x *big.Int) *big.Int {
	p := new(big.Int).Set(x)
	if p.Bit(0) == 0 {
		p.Add(p, big.NewInt(1))
	}
	for !p.ProbablyPrime(30) {
		p.Add(p, big.NewInt(2))
	}
	return p
}

func prevPrime(x *big.Int) *big.Int {
	p := new(big.Int).Set(x)
	if p.Bit(0) == 0 {
		p.Sub(p, big.NewInt(1))
	}
	for !p.ProbablyPrime(30) {
		p.Sub(p, big.NewInt(2))
	}
	return p
}

func execC05(r *kernel.Run, s C05Spec) {
	kernel.SeedLibrary(r.T, s.LibSeed)
	key, other := kernel.GetKey(s.Key), kernel.GetKey(s.OtherKey)
	pk := key.Pk
	hr := hrand(s.ValSeed, 5)
	var ms []*big.Int
	for _, c := range s.Classes {
		ms = append(ms, attrValue(c, pk.Params.Lm, hr))
	}
	r.Logf("key=%s block=%d", s.Key, len(ms))
	r.Distinct(fmt.Sprintf("classes=%v bits=%d", s.Classes, key.Bits))

	// honest issuer
	r.Eval(1)
	sig, err := gabi.SignMessageBlock(key.Sk, pk, ms)
	if err != nil {
		r.Violate("C05:cannot-sign", nil, "%v", err)
		return
	}
	if !sig.Verify(pk, ms) {
		r.Violate("C05:valid-signature-rejected", map[string]any{"stage": "fresh"}, "fresh signature over a block of %d messages does not verify", len(ms))
		return
	}
	// reference equation, computed without the library's representation code: Z = A^e S^v prod R_i^{m_i'},
	// m_i' = SHA-256(m_i) for messages longer than Lm bits
	refOK := func(sg *gabi.CLSignature, block []*big.Int) bool {
		acc := new(big.Int).Exp(sg.A, sg.E, pk.N)
		acc.Mul(acc, new(big.Int).Exp(pk.S, sg.V, pk.N)).Mod(acc, pk.N)
		for i, m := range block {
			e := m
			if uint(m.BitLen()) > pk.Params.Lm {
				h := sha256.Sum256(m.Bytes())
				e = new(big.Int).SetBytes(h[:])
			}
			acc.Mul(acc, new(big.Int).Exp(pk.R[i], e, pk.N)).Mod(acc, pk.N)
		}
		return acc.Cmp(new(big.Int).Mod(pk.Z, pk.N)) == 0
	}
	nOver := 0
	hashedBlock := make([]*big.Int, len(ms))
	for i, m := range ms {
		hashedBlock[i] = m
		if uint(m.BitLen()) > pk.Params.Lm {
			nOver++
			h := sha256.Sum256(m.Bytes())
			hashedBlock[i] = new(big.Int).SetBytes(h[:])
		}
	}
	r.Probe(fmt.Sprintf("oversized-messages-in-block:%d", min(nOver, 3)))
	if !refOK(sig, ms) {
		r.Violate("C05:signature-equation-violated", map[string]any{"oversized": nOver}, "fresh signature over a block of %d messages (%d oversized) verifies but does not satisfy Z = A^e S^v prod R_i^m_i with oversized m_i replaced by their SHA-256 hash", len(ms), nOver)
		return
	}
	if nOver > 0 {
		// a message and its hash are the same message to the scheme
		r.Eval(1)
		if !sig.Verify(pk, hashedBlock) {
			r.Violate("C05:valid-signature-rejected", map[string]any{"stage": "hashed-block"}, "signature over a block with %d oversized messages is refused for the block of their hashes", nOver)
			return
		}
		if hs, err := gabi.SignMessageBlock(key.Sk, pk, hashedBlock); err == nil && !hs.Verify(pk, ms) {
			r.Violate("C05:valid-signature-rejected", map[string]any{"stage": "signed-hashed-block"}, "signature over the block of hashes is refused for the block with the %d oversized messages themselves", nOver)
			return
		}
	}
	cur := sig
	for i := 0; i < s.Rerand; i++ {
		nx, err := cur.Randomize(pk)
		if err != nil {
			r.Violate("C05:cannot-randomize", nil, "%v", err)
			return
		}
		r.Eval(1)
		if !nx.Verify(pk, ms) {
			r.Violate("C05:valid-signature-rejected", map[string]any{"stage": "randomized"}, "signature invalid after %d randomisations", i+1)
			return
		}
		if nx.A.Cmp(cur.A) == 0 {
			r.Violate("C05:randomize-is-identity", nil, "randomised signature has the same A")
		}
		cur = nx
	}

	must := func(id, kind string, sg *gabi.CLSignature, k *kernel.Key, block []*big.Int) {
		if !wanted(s.OnlyFault, id) {
			return
		}
		r.Eval(1)
		r.Fault(kind)
		var ok bool
		if p := guard(func() { ok = sg.Verify(k.Pk, block) }); p != "" {
			r.Violate("C05:panic:Verify", map[string]any{"fault": id}, "%s: CLSignature.Verify panics: %s", id, p)
			return
		}
		if ok {
			r.Violate("C05:invalid-signature-accepted:"+kind, map[string]any{"fault": id}, "%s: signature verifies", id)
		}
	}

	// Byzantine issuer: equation holds, exponent is wrong
	le, lep := pk.Params.Le, pk.Params.LePrime
	start := pow2(le - 1)
	end := new(big.Int).Add(start, pow2(lep-1))
	type fe struct {
		name string
		e    *big.Int
	}
	var es []fe
	es = append(es, fe{"prime-below-interval", prevPrime(new(big.Int).Sub(start, big.NewInt(1)))})
	es = append(es, fe{"prime-above-interval", nextPrime(new(big.Int).Add(end, big.NewInt(1)))})
	es = append(es, fe{"prime-far-above", nextPrime(new(big.Int).Lsh(end, 1))})
	es = append(es, fe{"prime-half-length", nextPrime(pow2(le / 2))})
	for _, sp := range []int64{3, 5, 7, 11, 13, 17, 19, 23, 29, 31, 37, 41, 43, 47, 53, 65537} {
		es = append(es, fe{fmt.Sprintf("small-prime-%d", sp), big.NewInt(sp)})
	}
	// composites inside the interval: product of two primes p*q with p*q in [start, end]
	p1 := nextPrime(pow2(le/2 - 1))
	q1 := new(big.Int).Div(new(big.Int).Add(start, pow2(lep-2)), p1)
	q1 = nextPrime(q1)
	comp := new(big.Int).Mul(p1, q1)
	if comp.Cmp(start) >= 0 && comp.Cmp(end) <= 0 {
		es = append(es, fe{"composite-two-large-primes", comp})
	}
	c3 := new(big.Int).Add(start, big.NewInt(1))
	for c3.Bit(0) == 0 || c3.ProbablyPrime(20) || new(big.Int).Mod(c3, big.NewInt(3)).Sign() != 0 {
		c3.Add(c3, big.NewInt(1))
	}
	es = append(es, fe{"composite-multiple-of-3", c3})
	sq := nextPrime(new(big.Int).Sqrt(new(big.Int).Add(start, pow2(lep-2))))
	sqq := new(big.Int).Mul(sq, sq)
	if sqq.Cmp(start) >= 0 && sqq.Cmp(end) <= 0 {
		es = append(es, fe{"composite-prime-square", sqq})
	}
	es = append(es, fe{"even-in-interval", new(big.Int).Add(start, big.NewInt(2))})
	for _, f := range es {
		fs, ok := forge(key, ms, f.e, sig.V)
		if !ok {
			r.Probe("forge-impossible")
			continue
		}
		must("forged-e:"+f.name, "exponent", fs, key, ms)
		// and through the issuance message: the holder must not end up with a credential
		if wanted(s.OnlyFault, "issue-forged-e:"+f.name) {
			r.Eval(1)
			r.Fault("byzantine-issuer")
			if cred := byzantineIssue(r, key, ms, f.e); cred != nil {
				r.Violate("C05:credential-from-forged-signature", map[string]any{"fault": "issue-forged-e:" + f.name}, "holder built a credential from a signature with e=%s", f.name)
			}
		}
	}
	// boundary primes inside the interval must verify (completeness at the edges)
	for _, f := range []fe{{"first-prime-in-interval", nextPrime(start)}, {"last-prime-in-interval", prevPrime(end)}} {
		if fs, ok := forge(key, ms, f.e, sig.V); ok && wanted(s.OnlyFault, "edge-e:"+f.name) {
			r.Eval(1)
			if !fs.Verify(pk, ms) {
				r.Violate("C05:valid-signature-rejected", map[string]any{"stage": f.name}, "signature with %s rejected", f.name)
			}
		}
	}

	// single-component alterations, other block / key / keyshare contribution
	alt := func(name string, f func(c *gabi.CLSignature)) {
		c := &gabi.CLSignature{A: new(big.Int).Set(cur.A), E: new(big.Int).Set(cur.E), V: new(big.Int).Set(cur.V)}
		f(c)
		must("alter:"+name, "component", c, key, ms)
	}
	one := big.NewInt(1)
	alt("A+1", func(c *gabi.CLSignature) { c.A.Add(c.A, one) })
	alt("A=1", func(c *gabi.CLSignature) { c.A.SetInt64(1) })
	alt("A-negated", func(c *gabi.CLSignature) { c.A.Sub(pk.N, c.A) })
	alt("e+2", func(c *gabi.CLSignature) { c.E.Add(c.E, big.NewInt(2)) })
	alt("e-next-prime", func(c *gabi.CLSignature) { c.E = nextPrime(new(big.Int).Add(c.E, one)) })
	alt("v+1", func(c *gabi.CLSignature) { c.V.Add(c.V, one) })
	alt("v-1", func(c *gabi.CLSignature) { c.V.Sub(c.V, one) })
	alt("v+order-1", func(c *gabi.CLSignature) { c.V.Add(c.V, new(big.Int).Sub(key.Sk.Order, one)) })
	alt("keyshareP=R0", func(c *gabi.CLSignature) { c.KeyshareP = new(big.Int).Set(pk.R[0]) })
	alt("keyshareP=S", func(c *gabi.CLSignature) { c.KeyshareP = new(big.Int).Set(pk.S) })
	for i := range ms {
		blk := append([]*big.Int{}, ms...)
		blk[i] = new(big.Int).Add(blk[i], one)
		must(fmt.Sprintf("other-block:m%d+1", i), "block", cur, key, blk)
	}
	if len(ms) > 1 {
		blk := append([]*big.Int{}, ms...)
		blk[0], blk[len(blk)-1] = blk[len(blk)-1], blk[0]
		if blk[0].Cmp(ms[0]) != 0 {
			must("other-block:swapped", "block", cur, key, blk)
		}
		if ms[len(ms)-1].Sign() != 0 {
			must("other-block:truncated", "block", cur, key, ms[:len(ms)-1])
		}
	}
	if len(ms) < len(pk.R) {
		must("other-block:extended", "block", cur, key, append(append([]*big.Int{}, ms...), big.NewInt(7)))
	}
	// a block with more messages than the key has bases is a different block too
	{
		long := append([]*big.Int{}, ms...)
		for len(long) <= len(pk.R) {
			long = append(long, big.NewInt(0))
		}
		must("other-block:longer-than-bases", "block", cur, key, long)
		if wanted(s.OnlyFault, "sign:longer-than-bases") {
			r.Eval(1)
			r.Fault("block")
			var serr error
			var sg *gabi.CLSignature
			if p := guard(func() { sg, serr = gabi.SignMessageBlock(key.Sk, pk, long) }); p != "" {
				r.Violate("C05:panic:SignMessageBlock", map[string]any{"fault": "sign:longer-than-bases"}, "signing a block of %d messages under a key with %d bases panics: %s", len(long), len(pk.R), p)
			} else if serr == nil && sg != nil {
				r.Violate("C05:signed-block-longer-than-bases", map[string]any{"fault": "sign:longer-than-bases"}, "a block of %d messages was signed under a key with %d bases", len(long), len(pk.R))
			}
		}
	}
	if other != key {
		must("other-key", "key", cur, other, ms)
	}
	// signature over a keyshare contribution P = R_0^k (CLSignature.KeyshareP): verifies with P, stays valid
	// after randomisation, and verifies neither without P nor with another one
	if wanted(s.OnlyFault, "keyshare-signature") {
		P := new(big.Int).Exp(pk.R[0], randBits(hr, 200), pk.N)
		block := append([]*big.Int{big.NewInt(0)}, ms[1:]...)
		var ism *gabi.IssueSignatureMessage
		var ierr error
		if p := guard(func() {
			ism, ierr = gabi.NewIssuer(key.Sk, pk, big.NewInt(1)).IssueSignature(P, ms[1:], nil, big.NewInt(4242), nil)
		}); p == "" && ierr == nil {
			r.Eval(1)
			sk := &gabi.CLSignature{A: ism.Signature.A, E: ism.Signature.E, V: ism.Signature.V, KeyshareP: P}
			det := map[string]any{"fault": "keyshare-signature"}
			if !sk.Verify(pk, block) {
				r.Violate("C05:valid-signature-rejected", map[string]any{"stage": "keyshare-fresh"}, "signature over a keyshare contribution does not verify with that contribution")
			} else {
				r.Probe("keyshare-signature-verifies")
				rs, err := sk.Randomize(pk)
				if err != nil {
					r.Violate("C05:cannot-randomize", det, "%v", err)
				} else if !rs.Verify(pk, block) {
					r.Violate("C05:valid-signature-rejected", map[string]any{"stage": "keyshare-randomized"}, "signature over a keyshare contribution no longer verifies after randomisation (keyshare contribution carried over: %v)", rs.KeyshareP != nil)
				}
				// the same contribution given by another representative (unreduced product, negative): whatever
				// Verify accepts must still be accepted after randomisation
				for name, rep := range map[string]*big.Int{"P+n": new(big.Int).Add(P, pk.N), "P-n": new(big.Int).Sub(P, pk.N)} {
					su := &gabi.CLSignature{A: sk.A, E: sk.E, V: sk.V, KeyshareP: rep}
					var ok1 bool
					if p := guard(func() { ok1 = su.Verify(pk, block) }); p != "" || !ok1 {
						r.Probe("unreduced-keyshare-contribution-not-accepted")
						continue
					}
					ru, err := su.Randomize(pk)
					if err != nil {
						r.Violate("C05:cannot-randomize", det, "%v", err)
					} else if !ru.Verify(pk, block) {
						r.Violate("C05:valid-signature-rejected", map[string]any{"stage": "keyshare-randomized-unreduced"}, "signature over a keyshare contribution given as %s verifies, its randomised copy does not (contribution carried over: %v)", name, ru.KeyshareP != nil)
					}
				}
				without := &gabi.CLSignature{A: sk.A, E: sk.E, V: sk.V}
				must("keyshare:without-contribution", "component", without, key, block)
				otherP := &gabi.CLSignature{A: sk.A, E: sk.E, V: sk.V, KeyshareP: new(big.Int).Mod(new(big.Int).Mul(P, pk.R[0]), pk.N)}
				must("keyshare:other-contribution", "component", otherP, key, block)
			}
		}
	}
	r.Sample(s)
}

// byzantineIssue plays an issuer that answers an honest holder's commitment with
// a signature whose exponent it chose, plus a correct-looking proof of
// correctness for it (made with gabi's own Issuer code path where possible).
func byzantineIssue(r *kernel.Run, key *kernel.Key, ms []*big.Int, e *big.Int) *gabi.Credential {
	pk := key.Pk
	ctx, nonce1, nonce2 := big.NewInt(4711), big.NewInt(1234567), big.NewInt(7654321)
	secret := ms[0]
	if secret.BitLen() > 255 {
		secret = big.NewInt(99)
	}
	b, err := gabi.NewCredentialBuilder(pk, ctx, secret, nonce2, nil, nil)
	if err != nil {
		panic(err)
	}
	cm, err := b.CommitToSecretAndProve(nonce1)
	if err != nil {
		panic(err)
	}
	U := cm.Proofs[0].(*gabi.ProofU).U
	// honest partial signature, then re-target its exponent: A' = Q^(1/e')
	issuer := gabi.NewIssuer(key.Sk, pk, ctx)
	attrs := ms[1:]
	sm, err := issuer.IssueSignature(U, attrs, nil, nonce2, nil)
	if err != nil {
		panic(err)
	}
	Q := new(big.Int).Exp(sm.Signature.A, sm.Signature.E, pk.N)
	d := new(big.Int).ModInverse(e, key.Sk.Order)
	if d == nil {
		return nil
	}
	forged := &gabi.CLSignature{A: new(big.Int).Exp(Q, d, pk.N), E: e, V: sm.Signature.V}
	// proof of correctness for the forged signature: Schnorr proof of knowledge of 1/e
	eCommit := new(big.Int).Add(big.NewInt(12345), key.Sk.PPrime)
	ACommit := new(big.Int).Exp(Q, eCommit, pk.N)
	c := gabiHashCommit([]*big.Int{ctx, Q, forged.A, nonce2, ACommit})
	eResp := new(big.Int).Mul(c, d)
	eResp.Sub(eCommit, eResp).Mod(eResp, key.Sk.Order)
	msg := &gabi.IssueSignatureMessage{Proof: &gabi.ProofS{C: c, EResponse: eResp}, Signature: forged}
	if !msg.Proof.Verify(pk, forged, ctx, nonce2) {
		r.Probe("forged-proofS-not-verifying")
		return nil
	}
	r.Probe("forged-proofS-verifies")
	cred, err := b.ConstructCredential(msg, attrs)
	if err != nil {
		return nil
	}
	return cred
}

func TestC05(t *testing.T) {
	RunProp(t, Prop[C05Spec]{ID: "C05", Draw: drawC05, Exec: execC05,
		Minimise: func(s C05Spec, v kernel.Violation) C05Spec {
			if f, ok := v.Details["fault"].(string); ok {
				s.OnlyFault = []string{f}
			}
			return s
		}})
}
