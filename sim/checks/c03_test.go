package checks

import (
	"fmt"
	"testing"

	"github.com/privacybydesign/gabi"
	"github.com/privacybydesign/gabi/big"
	"github.com/privacybydesign/gabi/gabikeys"
	"pgregory.net/rapid"

	"verif/sim/kernel"
)

// C03 — linked proofs share one secret key.
//
// World: up to four builders held by up to three colluding holders with distinct
// secrets, one session, every labelling (nil, all-equal, every partition) walked
// inside the run. The colluders pool everything: one common "secretkey"
// randomizer, and the algebraic deviations the property names (disclosing or
// splitting attribute 0, a second response for the secret-key base in an
// issuance commitment proof). Oracle: accepted => within every label class all
// builders hold the same secret in the ledger; honest same-secret lists are accepted.

type C03Spec struct {
	Keys      []string      `json:"keys"`
	LibSeed   uint64        `json:"lib_seed"`
	ValSeed   uint64        `json:"val_seed"`
	NHolders  int           `json:"n_holders"`
	Builders  []BuilderSpec `json:"builders"`
	IsSig     bool          `json:"is_sig"`
	OnlyFault []string      `json:"only_fault,omitempty"`
}

func drawC03(rt *rapid.T) C03Spec {
	s := C03Spec{LibSeed: rapid.Uint64().Draw(rt, "libseed"), ValSeed: rapid.Uint64().Draw(rt, "valseed")}
	nk := rapid.IntRange(1, 2).Draw(rt, "nkeys")
	for i := 0; i < nk; i++ {
		pool := kernel.KeyNames(256)
		if i == 1 {
			pool = append(kernel.KeyNames(512), kernel.KeyNames(256)...)
			if thorough() && rapid.IntRange(0, 19).Draw(rt, "big") == 0 {
				pool = kernel.KeyNames(1024)
			}
		}
		s.Keys = append(s.Keys, rapid.SampledFrom(pool).Draw(rt, "key"))
	}
	s.NHolders = rapid.IntRange(1, 3).Draw(rt, "nholders")
	nb := rapid.IntRange(2, 4).Draw(rt, "nbuilders")
	for j := 0; j < nb; j++ {
		s.Builders = append(s.Builders, drawBuilderSpec(rt, nk, s.NHolders, false))
	}
	s.IsSig = rapid.Bool().Draw(rt, "issig")
	return s
}

// labellings enumerates nil plus every set partition of n elements as label vectors.
func labellings(n int) [][]string {
	out := [][]string{nil}
	var rec func(i int, cur []int, blocks int)
	rec = func(i int, cur []int, blocks int) {
		if i == n {
			l := make([]string, n)
			for k, b := range cur {
				l[k] = fmt.Sprintf("kss%d", b)
			}
			out = append(out, l)
			return
		}
		for b := 0; b <= blocks; b++ {
			nb := blocks
			if b == blocks {
				nb++
			}
			rec(i+1, append(cur, b), nb)
		}
	}
	rec(0, nil, 0)
	return out
}

func execC03(r *kernel.Run, s C03Spec) {
	kernel.SeedLibrary(r.T, s.LibSeed)
	w := newWorld(r, s.ValSeed)
	var keys []*kernel.Key
	for _, n := range s.Keys {
		keys = append(keys, kernel.GetKey(n))
	}
	secrets := make([]*big.Int, s.NHolders)
	for i := range secrets {
		secrets[i] = newSecret()
	}
	ctx, nonce := randBits(w.hr, 200), randBits(w.hr, 80)
	bs := w.BuildSession(keys, secrets, s.Builders, ctx, nonce, s.IsSig)
	n := len(bs.List)
	holders := make([]int, n)
	for i, b := range s.Builders {
		holders[i] = b.Holder
	}
	r.Logf("builders=%d holders=%v", n, holders)

	// ledger predicate: within each label class all builders hold the same secret
	consistent := func(labels []string) bool {
		first := map[string]int{}
		for i := 0; i < n; i++ {
			l := ""
			if len(labels) > 0 {
				l = labels[i]
			}
			if h, ok := first[l]; ok {
				if secrets[h].Cmp(secrets[holders[i]]) != 0 {
					return false
				}
			} else {
				first[l] = holders[i]
			}
		}
		return true
	}

	try := func(id, kind string, pl gabi.ProofList, honest bool) {
		for li, labels := range labellings(n) {
			fid := fmt.Sprintf("%s/label%d", id, li)
			if !wanted(s.OnlyFault, fid) {
				continue
			}
			r.Eval(1)
			sess := bs.Sess
			sess.Labels = labels
			// each delivery decodes its own copy: verification writes into the proof objects
			var v Verdict
			if pl == nil {
				v = verifyWire(bs.Wire, sess)
			} else {
				v = verifyObj(pl, sess)
			}
			ok := consistent(labels)
			det := map[string]any{"fault": fid, "kind": kind}
			r.Distinct(fmt.Sprintf("holders=%v labels=%v kind=%s issuance=%v", holders, labels, kind, issuanceMask(s.Builders)))
			if v.Panic != "" {
				r.Violate("C03:panic:"+kind, det, "%s labels=%v: verifier panics: %s", fid, labels, v.Panic)
				continue
			}
			if v.Accepted && !ok {
				r.Violate("C03:accepted-different-secrets:"+kind, det, "%s: list accepted under labels %v although holders %v have different secrets in one label class", fid, labels, holders)
			}
			if !v.Accepted && ok && honest {
				r.Violate("C03:honest-linked-list-rejected", det, "%s: honest list rejected under labels %v (holders %v)", fid, labels, holders)
			}
			if v.Accepted {
				r.Probe("accepted")
			} else {
				r.Probe("rejected")
			}
		}
	}

	// (a) collusion with a pooled randomizer: the list as built (honest when one holder)
	try("pooled", "collusion", nil, true)

	// (b) algebraic equalisation of the secret-key responses
	fresh := func() gabi.ProofList {
		var pl gabi.ProofList
		mustUnmarshal(bs.Wire, &pl)
		return pl
	}
	sk := func(p gabi.Proof) *big.Int { return p.SecretKeyResponse() }
	ref := fresh()
	// target: every proof shows the smallest secret-key response of the list
	var target *big.Int
	for _, p := range ref {
		if target == nil || sk(p).Cmp(target) < 0 {
			target = sk(p)
		}
	}
	r.Fault("tamper-algebra")
	{
		// issuance proofs: move the difference into a second response for base R_0
		pl := fresh()
		changed := false
		for _, p := range pl {
			if u, ok := p.(*gabi.ProofU); ok && u.SResponse.Cmp(target) != 0 {
				diff := new(big.Int).Sub(u.SResponse, target)
				if u.MUserResponses == nil {
					u.MUserResponses = map[int]*big.Int{}
				}
				u.MUserResponses[0] = diff
				u.SResponse = new(big.Int).Set(target)
				changed = true
			}
		}
		if changed {
			r.Probe("second-R0-response")
			try("second-R0-response", "second-secret-response", pl, false)
		}
	}
	{
		// disclosure proofs: split attribute 0 into a disclosed part and the common response
		pl := fresh()
		changed := false
		for _, p := range pl {
			if d, ok := p.(*gabi.ProofD); ok && d.AResponses[0].Cmp(target) != 0 {
				diff := new(big.Int).Sub(d.AResponses[0], target)
				x, rem := new(big.Int).DivMod(diff, d.C, new(big.Int))
				if rem.Sign() != 0 {
					// the colluders cannot choose a disclosed part making the responses equal exactly; use the closest
					r.Probe("split0-inexact")
				}
				d.ADisclosed[0] = x
				d.AResponses[0] = new(big.Int).Sub(d.AResponses[0], new(big.Int).Mul(d.C, x))
				changed = true
			}
		}
		if changed {
			try("split-attribute-0", "split-secret", pl, false)
		}
	}
	{
		// disclosure proofs that disclose attribute 0 outright (built with gabi's own builder)
		var bl gabi.ProofBuilderList
		any0 := false
		for i, b := range s.Builders {
			if b.Issuance || bs.Creds[i] == nil {
				bl = append(bl, bs.Builders[i])
				continue
			}
			db, err := bs.Creds[i].Cred.CreateDisclosureProofBuilder(append([]int{0}, maskToIndices(b.Mask, b.NAttrs)...), nil, false)
			if err != nil {
				panic(err)
			}
			bl = append(bl, db)
			any0 = true
		}
		if any0 {
			var pl gabi.ProofList
			var err error
			if p := guard(func() { pl, err = bl.BuildProofList(ctx, nonce, s.IsSig) }); p == "" && err == nil {
				try("disclose-attribute-0", "disclose-secret", pl, false)
			}
		}
	}
	{
		// colluding holder whose issuance commitment is over the NEGATED secret, with the pooled randomizer
		// negated as well: its secret-key response is exactly minus the others'
		var bl gabi.ProofBuilderList
		holders2 := append([]int{}, holders...)
		secrets2 := append([]*big.Int{}, secrets...)
		anyNeg, usable := false, true
		for i, b := range s.Builders {
			if b.Issuance {
				neg := new(big.Int).Neg(secrets[b.Holder])
				cb, err := gabi.NewCredentialBuilder(keys[b.Key].Pk, ctx, neg, randBits(w.hr, 80), nil, b.Blind)
				if err != nil {
					usable = false
					break
				}
				bl = append(bl, &negRandomizerBuilder{cb})
				secrets2 = append(secrets2, neg)
				holders2[i] = len(secrets2) - 1
				anyNeg = true
				continue
			}
			db, err := bs.Creds[i].Cred.CreateDisclosureProofBuilder(maskToIndices(b.Mask, b.NAttrs), nil, false)
			if err != nil {
				usable = false
				break
			}
			bl = append(bl, db)
		}
		if anyNeg && usable {
			var pl gabi.ProofList
			var err error
			if p := guard(func() { pl, err = bl.BuildProofList(ctx, nonce, s.IsSig) }); p == "" && err == nil {
				r.Probe("negated-secret-commitment-built")
				holdersWas, secretsWas := holders, secrets
				holders, secrets = holders2, secrets2
				try("negated-secret-commitment", "negated-secret", pl, false)
				holders, secrets = holdersWas, secretsWas
			}
		}
	}
	r.Sample(s)
}

// negRandomizerBuilder hands its inner builder the negated pooled secret-key randomizer.
type negRandomizerBuilder struct{ inner *gabi.CredentialBuilder }

func (n *negRandomizerBuilder) Commit(rz map[string]*big.Int) ([]*big.Int, error) {
	m := map[string]*big.Int{}
	for k, v := range rz {
		m[k] = v
	}
	if v := rz["secretkey"]; v != nil {
		m["secretkey"] = new(big.Int).Neg(v)
	}
	return n.inner.Commit(m)
}
func (n *negRandomizerBuilder) CreateProof(c *big.Int) gabi.Proof { return n.inner.CreateProof(c) }
func (n *negRandomizerBuilder) PublicKey() *gabikeys.PublicKey    { return n.inner.PublicKey() }
func (n *negRandomizerBuilder) SetProofPCommitment(p *gabi.ProofPCommitment) {
	n.inner.SetProofPCommitment(p)
}

func issuanceMask(bs []BuilderSpec) string {
	out := ""
	for _, b := range bs {
		if b.Issuance {
			out += "U"
		} else {
			out += "D"
		}
	}
	return out
}

func TestC03(t *testing.T) {
	RunProp(t, Prop[C03Spec]{ID: "C03", Draw: drawC03, Exec: execC03,
		Minimise: func(s C03Spec, v kernel.Violation) C03Spec {
			if f, ok := v.Details["fault"].(string); ok {
				s.OnlyFault = []string{f}
			}
			return s
		}})
}
