package checks

import (
	"bytes"
	"crypto/sha256"
	"encoding/base64"
	"encoding/json"
	"fmt"
	"testing"

	"github.com/privacybydesign/gabi"
	"github.com/privacybydesign/gabi/big"
	"github.com/privacybydesign/gabi/gabikeys"
	"pgregory.net/rapid"

	"verif/sim/kernel"
)

// C04 — selective disclosure is complete and minimal.
//
// World (fault-free class): a holder shows one credential once per disclosure
// subset (all 2^k walked inside the run); an eavesdropper on the simulated wire
// records every byte the holder emits (proof JSON and the timestamp-request
// contribution) and scans it for hidden values; the holder process is restarted
// from its durable JSON blob between sessions. The scheduler adds nothing here
// (said so in DESIGN): this is the honest-run oracle of the world.

type C04Spec struct {
	Key     string `json:"key"`
	LibSeed uint64 `json:"lib_seed"`
	ValSeed uint64 `json:"val_seed"`
	Classes []int  `json:"classes"`
	IsSig   bool   `json:"is_sig"`
	Nonrev  bool   `json:"nonrev"`
	Restart int    `json:"restart"` // restart the holder before every Restart-th session (0 = never)
	// Keyshare: the holder's secret is shared with a keyshare server (a party that must learn nothing about
	// attributes); 0 none, 1 honest server, 2 server answering with a challenge of its own choosing,
	// 3 server answering with an incomplete message, 4 server whose first answer (its commitments) is incomplete
	Keyshare int `json:"keyshare,omitempty"`
}

func drawC04(rt *rapid.T) C04Spec {
	s := C04Spec{LibSeed: rapid.Uint64().Draw(rt, "libseed"), ValSeed: rapid.Uint64().Draw(rt, "valseed")}
	s.Key = drawKeyName(rt, "key")
	k := rapid.IntRange(1, 6).Draw(rt, "k")
	for i := 0; i < k; i++ {
		s.Classes = append(s.Classes, rapid.IntRange(0, nValueClasses-1).Draw(rt, "class"))
	}
	s.IsSig = rapid.Bool().Draw(rt, "issig")
	s.Nonrev = rapid.IntRange(0, 3).Draw(rt, "nonrev") == 0
	s.Restart = rapid.IntRange(0, 3).Draw(rt, "restart")
	if rapid.IntRange(0, 5).Draw(rt, "keyshare") == 0 {
		s.Keyshare = rapid.IntRange(1, 4).Draw(rt, "kssmode")
		s.Key = rapid.SampledFrom(kernel.KeyNamesZ128()).Draw(rt, "ksskey")
		s.Nonrev = false
	}
	return s
}

// needles are the byte forms under which a value could leak.
func needles(v *big.Int) [][]byte {
	raw := v.Bytes()
	h := sha256.Sum256(raw)
	return [][]byte{raw, h[:]}
}

func leafBytes(tree any) [][]byte {
	var out [][]byte
	kernel.Walk(tree, func(_ kernel.Path, n any) {
		switch x := n.(type) {
		case string:
			if b, err := base64.StdEncoding.DecodeString(x); err == nil {
				out = append(out, b)
			} else if b, err := base64.URLEncoding.DecodeString(x); err == nil {
				out = append(out, b)
			} else {
				out = append(out, []byte(x))
			}
		case json.Number:
			out = append(out, []byte(x.String()))
		}
	})
	return out
}

func execC04(r *kernel.Run, s C04Spec) {
	if p := kernel.InBubble(r.T, func() { execC04Bubble(r, s) }); p != nil {
		panic(p)
	}
}

// execC04Keyshare: two credentials of one holder under a key that takes part in the keyshare protocol, one
// disclosure session over both. Whatever the keyshare server answers, what the holder sends out afterwards
// must not contain hidden values, neither verbatim nor recoverable by dividing a response by the challenge
// it was computed with.
func execC04Keyshare(r *kernel.Run, s C04Spec) {
	kernel.SeedLibrary(r.T, s.LibSeed)
	w := newWorld(r, s.ValSeed)
	key := kernel.GetKey(s.Key)
	pk := key.Pk
	userSecret, err := gabi.NewKeyshareSecret()
	if err != nil {
		panic(err)
	}
	kssSecret, err := gabi.NewKeyshareSecret()
	if err != nil {
		panic(err)
	}
	var attrs [][]*big.Int
	for c := 0; c < 2; c++ {
		var a []*big.Int
		for _, cl := range s.Classes {
			a = append(a, attrValue(cl+c, pk.Params.Lm, w.hr))
		}
		attrs = append(attrs, a)
	}
	k := len(s.Classes)
	mask := int(s.ValSeed % uint64(1<<k))
	disclosed := maskToIndices(mask, k)
	ctx, nonce := big.NewInt(1), randBits(w.hr, 80)
	var builders gabi.ProofBuilderList
	for c := 0; c < 2; c++ {
		cred := keyshareCred(w, key, userSecret, kssSecret, attrs[c], false)
		b, err := cred.CreateDisclosureProofBuilder(disclosed, nil, false)
		if err != nil {
			r.Violate("C04:cannot-build-proof", map[string]any{"keyshare": s.Keyshare}, "%v", err)
			return
		}
		builders = append(builders, b)
	}
	r.Logf("keyshare mode=%d key=%s k=%d mask=%b", s.Keyshare, s.Key, k, mask)
	r.Distinct(fmt.Sprintf("keyshare mode=%d classes=%v mask=%d sig=%v", s.Keyshare, s.Classes, mask, s.IsSig))
	part := map[string]*gabikeys.PublicKey{key.Name: pk}
	rz, err := gabi.NewProofRandomizers()
	if err != nil {
		panic(err)
	}
	cr, hi, err := gabi.KeyshareUserCommitmentRequest(builders, rz, part)
	if err != nil {
		r.Violate("C04:keyshare-exchange-failed", map[string]any{"stage": "user-round1"}, "%v", err)
		return
	}
	rnd, comms, err := gabi.NewKeyshareCommitments(kssSecret, []*gabikeys.PublicKey{pk, pk})
	if err != nil {
		r.Violate("C04:keyshare-exchange-failed", map[string]any{"stage": "server-round1"}, "%v", err)
		return
	}
	if s.Keyshare == 4 {
		r.Fault("byzantine-keyshare-server")
		comms[len(comms)-1] = &gabi.ProofPCommitment{P: comms[len(comms)-1].P}
	}
	for i, b := range builders {
		b.SetProofPCommitment(comms[i])
	}
	var rr gabi.KeyshareResponseRequest[string]
	var ch *big.Int
	if p := guard(func() { rr, ch, err = gabi.KeyshareUserResponseRequest(builders, rz, hi, ctx, nonce, s.IsSig) }); p != "" {
		r.Violate("C04:holder-panics-on-keyshare-answer", map[string]any{"keyshare": s.Keyshare}, "KeyshareUserResponseRequest panics on the keyshare server's commitments: %s", p)
		return
	}
	if err != nil {
		if s.Keyshare == 4 {
			r.Probe("rogue-keyshare-answer-refused")
			return
		}
		r.Violate("C04:keyshare-exchange-failed", map[string]any{"stage": "user-round2"}, "%v", err)
		return
	}
	if s.Keyshare == 4 {
		return // the holder went on with an incomplete commitment: nothing was sent out yet
	}
	own := new(big.Int).Set(ch)
	var crw gabi.KeyshareCommitmentRequest
	mustUnmarshal(mustJSON(cr), &crw)
	var rrw gabi.KeyshareResponseRequest[string]
	mustUnmarshal(mustJSON(rr), &rrw)
	pp, err := gabi.KeyshareResponse(kssSecret, rnd, crw, rrw, part)
	if err != nil {
		r.Violate("C04:keyshare-exchange-failed", map[string]any{"stage": "server-round2"}, "%v", err)
		return
	}
	r.Eval(1)
	answers := make([]*gabi.ProofP, 2)
	for i := range answers {
		var a gabi.ProofP
		mustUnmarshal(mustJSON(pp), &a) // one decoded message per key, as a holder application receives them
		switch s.Keyshare {
		case 2:
			r.Fault("byzantine-keyshare-server")
			a.C, a.SResponse = pow2(3000), big.NewInt(1)
		case 3:
			r.Fault("byzantine-keyshare-server")
			if i == 0 {
				a.SResponse = nil
			} else {
				a.C = nil
			}
		}
		answers[i] = &a
	}
	var pl gabi.ProofList
	var berr error
	if p := guard(func() { pl, berr = builders.BuildDistributedProofList(ch, answers) }); p != "" {
		r.Violate("C04:holder-panics-on-keyshare-answer", map[string]any{"keyshare": s.Keyshare}, "BuildDistributedProofList panics on the keyshare server's answer: %s", p)
		return
	}
	det := map[string]any{"keyshare": s.Keyshare}
	if ch.Cmp(own) != 0 {
		r.Violate("C04:holder-challenge-overwritten", det, "the holder's own challenge was overwritten by the keyshare server's answer")
	}
	if berr != nil {
		if s.Keyshare == 1 {
			r.Violate("C04:keyshare-exchange-failed", map[string]any{"stage": "merge"}, "%v", berr)
		} else {
			r.Probe("rogue-keyshare-answer-refused")
		}
		return
	}
	wire := mustJSON(pl)
	if s.Keyshare == 1 {
		v := verifyWire(wire, Session{Context: ctx, Nonce: nonce, IsSig: s.IsSig, Keys: []*gabikeys.PublicKey{pk, pk}, Labels: []string{"kss", "kss"}})
		if !v.Accepted {
			r.Violate("C04:honest-proof-rejected", det, "keyshare session: merged proof list rejected (decode=%v panic=%s)", v.DecodeErr, v.Panic)
			return
		}
		r.Probe("keyshare-session-accepted")
	}
	// what went out: every response must hide its value under the holder's own challenge
	want := map[int]bool{}
	for _, i := range disclosed {
		want[i] = true
	}
	for c, pr := range pl {
		pd, ok := pr.(*gabi.ProofD)
		if !ok {
			continue
		}
		if pd.C.Cmp(own) != 0 && s.Keyshare != 1 {
			r.Probe("outgoing-proof-carries-foreign-challenge")
		}
		ms := append([]*big.Int{new(big.Int).Add(userSecret, kssSecret)}, attrs[c]...)
		for i, resp := range pd.AResponses {
			if i >= len(ms) || resp == nil || pd.C == nil || pd.C.Sign() == 0 {
				continue
			}
			m := ms[i]
			if i == 0 {
				m = userSecret
			}
			if uint(m.BitLen()) > pk.Params.Lm {
				h := sha256.Sum256(m.Bytes())
				m = new(big.Int).SetBytes(h[:])
			}
			if m.Sign() > 0 && new(big.Int).Div(resp, pd.C).Cmp(m) == 0 {
				r.Violate("C04:hidden-value-recoverable-from-response", det, "proof %d: response of hidden index %d divided by the challenge in the proof is the hidden value itself (the challenge is the keyshare server's, %d bits)", c, i, pd.C.BitLen())
			}
		}
		emitted := leafBytes(kernel.MustDecode(mustJSON(gabi.ProofList{pd})))
		for i := 1; i < len(ms); i++ {
			if want[i] || ms[i].BitLen() < 64 {
				continue
			}
			legit := false // the same value is legitimately on the wire for a chosen index (of either credential)
			for _, a := range attrs {
				for j := range want {
					if j >= 1 && j-1 < len(a) && a[j-1].Cmp(ms[i]) == 0 {
						legit = true
					}
				}
			}
			if legit {
				continue
			}
			r.Probe("scanned-hidden-value")
			for _, nd := range needles(ms[i]) {
				for _, e := range emitted {
					if bytes.Contains(e, nd) {
						r.Violate("C04:hidden-value-on-the-wire", det, "keyshare session: value of hidden attribute %d of credential %d appears in what the holder emitted", i, c)
					}
				}
			}
		}
	}
}

func execC04Bubble(r *kernel.Run, s C04Spec) {
	if s.Keyshare != 0 {
		execC04Keyshare(r, s)
		return
	}
	kernel.SeedLibrary(r.T, s.LibSeed)
	w := newWorld(r, s.ValSeed)
	key := kernel.GetKey(s.Key)
	pk := key.Pk
	hc := w.NewCred(key, newSecret(), s.Classes, s.Nonrev)
	k := len(s.Classes)
	n := len(hc.Led.Ms) // secret + k (+ witness)
	blob := mustJSON(hc.Cred)
	cred := hc.Cred
	r.Logf("key=%s k=%d nonrev=%v sig=%v", s.Key, k, s.Nonrev, s.IsSig)

	for mask := 0; mask < 1<<k; mask++ {
		if s.Restart > 0 && mask%s.Restart == 0 {
			// holder crash-restart: only the durable blob survives
			r.Fault("crash-restart")
			nc := &gabi.Credential{}
			if err := json.Unmarshal(blob, nc); err != nil {
				r.Violate("C04:credential-blob-unreadable", nil, "%v", err)
				return
			}
			nc.Pk = pk
			if nc.NonRevocationWitness != nil {
				if err := nc.NonRevocationWitness.Verify(pk); err != nil {
					r.Violate("C04:reloaded-witness-invalid", nil, "%v", err)
					return
				}
			}
			cred = nc
		}
		disclosed := maskToIndices(mask, k)
		ctx, nonce := randBits(w.hr, 200), randBits(w.hr, 80)
		r.Eval(1)
		b, err := cred.CreateDisclosureProofBuilder(disclosed, nil, s.Nonrev)
		if err != nil {
			r.Violate("C04:cannot-build-proof", map[string]any{"nonrev": s.Nonrev}, "mask %b: %v", mask, err)
			continue
		}
		// the timestamp request of a signature session is made BEFORE the commitment (the timestamp goes
		// into the nonce); it is asked for again after the proof was built: both orders are a holder's
		preA, preVals := b.TimestampRequestContributions()
		preWire := mustJSON(map[string]any{"A": preA, "disclosed": preVals})
		pl, err := gabi.ProofBuilderList{b}.BuildProofList(ctx, nonce, s.IsSig)
		if err != nil {
			r.Violate("C04:cannot-build-proof", map[string]any{"nonrev": s.Nonrev}, "mask %b: %v", mask, err)
			continue
		}
		wire := mustJSON(pl)
		tsA, tsVals := b.TimestampRequestContributions()
		tsWire := mustJSON(map[string]any{"A": tsA, "disclosed": tsVals})
		det := map[string]any{"nonrev": s.Nonrev, "sig": s.IsSig}
		if !bytes.Equal(preWire, tsWire) {
			r.Violate("C04:timestamp-contribution-wrong", det, "mask %b: the contribution asked for before the commitment differs from the one asked for afterwards", mask)
		}

		// verifier
		v := verifyWire(wire, Session{Context: ctx, Nonce: nonce, IsSig: s.IsSig, Keys: []*gabikeys.PublicKey{pk}})
		if !v.Accepted {
			if v.Ambiguous {
				det["small_hidden_responses"] = ">=2"
			}
			r.Violate("C04:honest-proof-rejected", det, "mask %b: proof rejected (decode=%v panic=%s)", mask, v.DecodeErr, v.Panic)
			continue
		}
		pd := v.List[0].(*gabi.ProofD)
		want := map[int]bool{}
		for _, i := range disclosed {
			want[i] = true
		}
		if len(pd.ADisclosed) != len(disclosed) {
			r.Violate("C04:disclosed-set-wrong", det, "mask %b: reports %d disclosed indices, chosen %d", mask, len(pd.ADisclosed), len(disclosed))
		}
		for i, val := range pd.ADisclosed {
			if !want[i] {
				r.Violate("C04:disclosed-set-wrong", det, "mask %b: index %d disclosed but not chosen", mask, i)
			} else if val.Cmp(hc.Led.Ms[i]) != 0 {
				r.Violate("C04:disclosed-value-wrong", det, "mask %b: index %d", mask, i)
			}
		}
		for i := 0; i < n; i++ {
			_, hidden := pd.AResponses[i]
			if want[i] == hidden {
				r.Violate("C04:hidden-set-wrong", det, "mask %b: index %d chosen=%v has response=%v", mask, i, want[i], hidden)
			}
		}
		if len(pd.AResponses) != n-len(disclosed) {
			r.Violate("C04:hidden-set-wrong", det, "mask %b: %d responses for %d hidden indices", mask, len(pd.AResponses), n-len(disclosed))
		}
		// timestamp contribution
		if len(tsVals) != n {
			r.Violate("C04:timestamp-contribution-wrong", det, "mask %b: length %d != %d", mask, len(tsVals), n)
		} else {
			for i := 0; i < n; i++ {
				if want[i] && tsVals[i].Cmp(hc.Led.Ms[i]) != 0 || !want[i] && tsVals[i].Sign() != 0 {
					r.Violate("C04:timestamp-contribution-wrong", det, "mask %b: entry %d", mask, i)
				}
			}
		}
		if tsA.Cmp(pd.A) != 0 {
			r.Violate("C04:timestamp-contribution-wrong", det, "mask %b: A differs from the proof's", mask)
		}
		// eavesdropper: no emitted integer or string contains a hidden value (only values long enough to be meaningful)
		var emitted [][]byte
		emitted = append(emitted, leafBytes(kernel.MustDecode(wire))...)
		emitted = append(emitted, leafBytes(kernel.MustDecode(tsWire))...)
		emitted = append(emitted, leafBytes(kernel.MustDecode(preWire))...)
		for i := 0; i < n; i++ {
			if want[i] || hc.Led.Ms[i].BitLen() < 64 {
				continue
			}
			sameAsDisclosed := false
			for j := range want {
				if hc.Led.Ms[j].Cmp(hc.Led.Ms[i]) == 0 {
					sameAsDisclosed = true // the same value is legitimately on the wire for a chosen index
				}
			}
			if sameAsDisclosed {
				continue
			}
			r.Probe("scanned-hidden-value")
			for ni, nd := range needles(hc.Led.Ms[i]) {
				for ei, e := range emitted {
					if bytes.Contains(e, nd) {
						r.Violate("C04:hidden-value-on-the-wire", det, "mask %b: value (or its hash) of hidden attribute %d (class %d, needle %d, %d bytes) appears in leaf %d (%d bytes) of what the holder emitted", mask, i, s.Classes[min(i-1, len(s.Classes)-1)], ni, len(nd), ei, len(e))
					}
				}
				dec := []byte(new(big.Int).SetBytes(nd).String())
				if bytes.Contains(wire, dec) || bytes.Contains(tsWire, dec) || bytes.Contains(preWire, dec) {
					r.Violate("C04:hidden-value-on-the-wire", det, "mask %b: decimal form of hidden attribute %d appears on the wire", mask, i)
				}
			}
		}
		r.Distinct(fmt.Sprintf("classes=%v mask=%d sig=%v nonrev=%v bits=%d", s.Classes, mask, s.IsSig, s.Nonrev, key.Bits))
	}
	r.Sample(s)
}

func TestC04(t *testing.T) {
	RunProp(t, Prop[C04Spec]{ID: "C04", Draw: drawC04, Exec: execC04})
}
