package checks

import (
	"fmt"
	"sort"
	"testing"
	"time"

	"github.com/anishathalye/porcupine"
	"github.com/privacybydesign/gabi"
	"github.com/privacybydesign/gabi/gabikeys"
	"pgregory.net/rapid"

	"verif/sim/kernel"
)

// C20 — concurrent use is safe (engine T-race).
//
// 2..16 (thorough ..64) caller tasks share credentials, one public key and the
// process-wide generator; the controlled scheduler decides every interleaving
// from the seeded schedule vector, the binary is built with the race detector
// (still sensitive: the baton creates no happens-before edge). Oracles: no race
// report; every concurrently produced proof is as valid as a sequential one;
// the generator's recorded history is linearizable to a fetch-and-add counter
// and no keystream block is handed out twice.

func drawC20(rt *rapid.T) TSpec {
	maxTasks := 8
	if thorough() {
		maxTasks = 24
	}
	kinds := []int{tPrepare, tPrepare, tProveNonrev, tProveNonrev, tProvePlain, tVerify, tRandRead, tRandRead, tRandomQR, tProveRange, tProveList, tIssueCommit, tIssueRetry, tVerifyUpdate, tVerifyUpdate, tProveAfterFailedCommit}
	if rapid.IntRange(0, 7).Draw(rt, "freerun") == 0 {
		// stress class: real parallelism, generator-heavy (reaches windows between adjacent atomic operations)
		s := drawTSpec(rt, []int{tRandStress, tRandStress, tRandRead, tRandRead, tRandomQR, tProveNonrev, tPrepare, tGenKey}, 16, 12, 1)
		s.FreeRun = true
		s.Schedule = nil
		return s
	}
	return drawTSpec(rt, kinds, maxTasks, 3, 1)
}

type cprngIn struct{ blocks int }

func checkTResultValidity(r *kernel.Run, prop string, res *tResult) {
	pk := res.Key.Pk
	for _, e := range res.Errors {
		r.Violate(prop+":operation-failed-under-concurrency", nil, "%s", e)
	}
	for _, p := range res.Panics {
		r.Violate(prop+":panic-under-concurrency", nil, "%s", p)
	}
	for _, p := range res.Proofs {
		keys := []*gabikeys.PublicKey{pk}
		if p.IsList {
			keys = append(keys, pk)
		}
		r.Eval(1)
		v := verifyWire(p.Wire, Session{Context: p.Ctx, Nonce: p.Nonce, Keys: keys})
		if !v.Accepted {
			det := map[string]any{}
			if v.Ambiguous {
				det["small_hidden_responses"] = ">=2"
			}
			r.Violate(prop+":concurrently-produced-proof-invalid", det, "proof of phase %d task %d op %d (kind %d) does not verify (decode=%v panic=%s)", p.Phase, p.Task, p.Op, p.Kind, v.DecodeErr, v.Panic)
			continue
		}
		if pd, ok := v.List[0].(*gabi.ProofD); ok {
			checkAcceptedProofD(r, fmt.Sprintf("p%dt%do%d", p.Phase, p.Task, p.Op), pd, res.Creds[p.Cred].Led, pk)
		}
	}
}

func execC20(r *kernel.Run, s TSpec) {
	res := runT(r, s)
	r.Distinct("interleaving " + fmt.Sprint(res.SwitchH))
	if res.Switches > 0 {
		r.Probe("runs-with-context-switches")
	}
	if res.Race != "" {
		cls, text := kernel.RaceClass(res.Race)
		r.Violate("C20:race:"+cls, map[string]any{"frames": cls}, "data race reported by the race detector:\n%s", text)
	}
	checkTResultValidity(r, "C20", res)
	checkRandomnessReuse(r, "C20", res) // a concurrently produced result is not "as valid as a sequential one" if it shares randomness with another

	if len(res.Blocks) > 0 {
		seenB := make(map[[16]byte]bool, len(res.Blocks))
		dups := 0
		for _, b := range res.Blocks {
			if seenB[b] {
				dups++
			}
			seenB[b] = true
		}
		r.Eval(len(res.Blocks))
		r.Probe("stress-blocks-checked")
		if dups > 0 {
			r.Violate("C20:keystream-block-handed-out-twice", map[string]any{"stress": true}, "%d of %d one-block reads made concurrently returned a block another read had already been given", dups, len(res.Blocks))
		}
	}
	// generator history
	if len(res.Reads) > 0 {
		type rd struct {
			tRead
			off, blocks int
		}
		var rds []rd
		total := 0
		for _, x := range res.Reads {
			total += (x.N + 15) / 16
		}
		// other tasks consume blocks too (proof randomness): search generously
		maxBlocks := total + len(res.Blocks) + 4096 + 512*len(res.Proofs)
		// Reads of at least one block identify their offset uniquely; shorter reads may match the
		// keystream at several places and are only required to come from a block no long read owns.
		var short []tRead
		for _, x := range res.Reads {
			if x.N < 16 {
				short = append(short, x)
				continue
			}
			off := keystreamOffset(res.CPRNGKey, x.Bytes, maxBlocks)
			if off < 0 {
				r.Violate("C20:generator-output-not-from-keystream", nil, "a read of %d bytes by task %d is not a contiguous piece of the generator's keystream", x.N, x.Task)
				continue
			}
			rds = append(rds, rd{x, off, (x.N + 15) / 16})
		}
		for _, x := range short {
			ok := false
			for off := 0; off < maxBlocks && !ok; off++ {
				if keystreamOffsetAt(res.CPRNGKey, x.Bytes, off) {
					free := true
					for _, l := range rds {
						if off >= l.off && off < l.off+l.blocks {
							free = false
						}
					}
					ok = free
				}
			}
			if !ok {
				r.Violate("C20:keystream-block-handed-out-twice", map[string]any{"short": true}, "a %d-byte read by task %d matches no keystream block that is not owned by another read", x.N, x.Task)
			}
		}
		sort.Slice(rds, func(i, j int) bool { return rds[i].off < rds[j].off })
		for i := 1; i < len(rds); i++ {
			if rds[i-1].off+rds[i-1].blocks > rds[i].off {
				r.Violate("C20:keystream-block-handed-out-twice", nil, "reads by tasks %d and %d overlap: blocks [%d,%d) and [%d,%d)", rds[i-1].Task, rds[i].Task,
					rds[i-1].off, rds[i-1].off+rds[i-1].blocks, rds[i].off, rds[i].off+rds[i].blocks)
			}
		}
		// linearizability against a fetch-and-add counter with unobserved other consumers:
		// a read's offset is never below the counter left by any read that returned before it was invoked
		model := porcupine.Model{
			Init: func() interface{} { return 0 },
			Step: func(state, input, output interface{}) (bool, interface{}) {
				st, in, out := state.(int), input.(cprngIn), output.(int)
				if out < st {
					return false, st
				}
				return true, out + in.blocks
			},
		}
		if s.FreeRun {
			r.Probe("free-running-generator-history-checked")
			r.Sample(map[string]any{"free_run": true, "tasks": len(s.Phases[0]), "reads": len(res.Reads)})
			return
		}
		var ops []porcupine.Operation
		for _, x := range rds {
			ops = append(ops, porcupine.Operation{ClientId: x.Task, Input: cprngIn{x.blocks}, Call: x.Call, Output: x.off, Return: x.Ret})
		}
		if len(ops) > 200 {
			ops = ops[:200]
		}
		switch porcupine.CheckOperationsTimeout(model, ops, 30*time.Second) {
		case porcupine.Illegal:
			r.Violate("C20:generator-history-not-linearizable", nil, "recorded reads of the process-wide generator are not linearizable to a fetch-and-add counter")
		case porcupine.Unknown:
			r.Probe("porcupine-unknown(inconclusive)")
		default:
			r.Probe("generator-history-linearizable")
		}
		overlap := false
		for i := range res.Reads {
			for j := range res.Reads {
				if i != j && res.Reads[i].Call < res.Reads[j].Call && res.Reads[j].Call < res.Reads[i].Ret {
					overlap = true
				}
			}
		}
		if overlap {
			r.Probe("overlapping-generator-reads")
		}
	}
	r.Sample(map[string]any{"tasks": len(s.Phases[0]), "schedule_len": len(s.Schedule), "switches": res.Switches, "ops": s.Phases[0]})
}

func TestC20(t *testing.T) {
	RunProp(t, Prop[TSpec]{ID: "C20", Draw: drawC20, Exec: execC20})
}

var _ = rapid.Bool
