package checks

import (
	cryptorand "crypto/rand"
	"fmt"
	"runtime"
	"strings"
	"testing"
	"time"

	"github.com/privacybydesign/gabi/big"
	"github.com/privacybydesign/gabi/gabikeys"
	"github.com/privacybydesign/gabi/keyproof"
	"github.com/privacybydesign/gabi/safeprime"
	"pgregory.net/rapid"

	"verif/sim/kernel"
)

// C16 — generated issuer keys are well-formed; generation terminates and leaves
// no worker running (engine T-bubble).
//
// 1..3 concurrent GenerateKeyPair calls (and keyproof's findSafePrime) at toy
// lengths run inside a synctest bubble; the library's watcher and worker
// goroutines announce themselves through the Spawned hook and are scheduled,
// like the callers, one at a time from the seeded schedule vector: consumer
// starved while workers fill the result channel, watcher starved after stop,
// stop between a worker's check and its send. Oracles: every returned key pair
// satisfies the well-formedness predicate; after the callers return, scheduling
// continues until nothing is runnable — any library goroutine left blocked is a leak.

type C16Spec struct {
	Bits      []int    `json:"bits"`       // per concurrent generation: modulus length
	Attrs     []int    `json:"attrs"`      // per generation: number of bases
	FindPrime int      `json:"find_prime"` // >0: also run keyproof.findSafePrime(size) as a task
	Procs     int      `json:"procs"`      // GOMAXPROCS = number of workers per generation
	LibSeed   uint64   `json:"lib_seed"`
	Schedule  []uint16 `json:"schedule"`
	Buggify   []string `json:"buggify"`
	// FreeRun: stress class with real parallelism and no scheduler; the consumer is stalled (real
	// sleep of StallMs at its "before stop" hook site) so that workers fill the results buffer.
	// Reaches check-then-act windows between two library statements that have no yield point
	// between them; not replayable exactly.
	FreeRun bool `json:"free_run"`
	StallMs int  `json:"stall_ms"`
	Rounds  int  `json:"rounds"`
	// entropy fault: crypto/rand reads number RandFailAt .. RandFailAt+RandFailN-1 fail (RandFailN 0: all later ones)
	RandFailAt int `json:"rand_fail_at,omitempty"`
	RandFailN  int `json:"rand_fail_n,omitempty"`
}

func drawC16(rt *rapid.T) C16Spec {
	s := C16Spec{LibSeed: rapid.Uint64().Draw(rt, "libseed")}
	n := rapid.IntRange(1, 3).Draw(rt, "ngens")
	for i := 0; i < n; i++ {
		s.Bits = append(s.Bits, rapid.SampledFrom([]int{128, 128, 129, 130, 131, 136, 146, 160, 192, 210, 255, 256, 258}).Draw(rt, "bits"))
		s.Attrs = append(s.Attrs, rapid.IntRange(1, 20).Draw(rt, "attrs"))
	}
	if rapid.IntRange(0, 3).Draw(rt, "find") == 0 {
		s.FindPrime = rapid.SampledFrom([]int{64, 65, 73, 80, 96, 97}).Draw(rt, "findsize")
	}
	s.Procs = rapid.SampledFrom([]int{1, 2, 3, 4, 8, 16}).Draw(rt, "procs")
	ns := rapid.IntRange(0, 600).Draw(rt, "nsched")
	for i := 0; i < ns; i++ {
		c := 0
		if rapid.IntRange(0, 2).Draw(rt, "sw") == 0 {
			c = rapid.IntRange(1, 40).Draw(rt, "to")
		}
		s.Schedule = append(s.Schedule, uint16(c))
	}
	if rapid.Bool().Draw(rt, "buggify") {
		s.Buggify = []string{"safeprime.Generate:extra-stop-check"}
	}
	if rapid.IntRange(0, 4).Draw(rt, "randfail") == 0 {
		s.RandFailAt = rapid.IntRange(1, 4000).Draw(rt, "randfailat")
		s.RandFailN = rapid.SampledFrom([]int{0, 0, 1, 2, 5}).Draw(rt, "randfailn")
	}
	if rapid.IntRange(0, 5).Draw(rt, "freerun") == 0 {
		s.FreeRun = true
		s.Procs = rapid.SampledFrom([]int{4, 8, 16}).Draw(rt, "freeprocs")
		s.StallMs = rapid.SampledFrom([]int{2, 5, 10, 20, 40}).Draw(rt, "stall")
		s.Rounds = rapid.IntRange(10, 40).Draw(rt, "rounds")
		s.Bits, s.Attrs, s.FindPrime, s.Schedule = []int{128}, []int{2}, 0, nil
		s.RandFailAt, s.RandFailN = 0, 0
	}
	return s
}

// wellFormed is the predicate of C16 on a generated pair.
func wellFormed(sk *gabikeys.PrivateKey, pk *gabikeys.PublicKey, bits, attrs int) string {
	one, eight := big.NewInt(1), big.NewInt(8)
	if sk.P.Cmp(sk.Q) == 0 {
		return "p == q"
	}
	if !safeprime.ProbablySafePrime(sk.P, 40) || !safeprime.ProbablySafePrime(sk.Q, 40) {
		return "p or q is not a safe prime"
	}
	if sk.P.BitLen() != bits/2 || sk.Q.BitLen() != bits/2 {
		return fmt.Sprintf("prime lengths %d/%d, want %d", sk.P.BitLen(), sk.Q.BitLen(), bits/2)
	}
	n := new(big.Int).Mul(sk.P, sk.Q)
	if n.BitLen() != bits || pk.N.Cmp(n) != 0 || sk.N.Cmp(n) != 0 {
		return fmt.Sprintf("modulus length %d, want %d (or N != p*q)", n.BitLen(), bits)
	}
	pp, qp := new(big.Int).Rsh(sk.P, 1), new(big.Int).Rsh(sk.Q, 1)
	if sk.PPrime.Cmp(pp) != 0 || sk.QPrime.Cmp(qp) != 0 || sk.Order.Cmp(new(big.Int).Mul(pp, qp)) != 0 {
		return "derived private parameters inconsistent"
	}
	if new(big.Int).Mod(sk.P, eight).Cmp(new(big.Int).Mod(sk.Q, eight)) == 0 {
		return "p == q mod 8"
	}
	if new(big.Int).Mod(pp, eight).Cmp(one) == 0 || new(big.Int).Mod(qp, eight).Cmp(one) == 0 {
		return "p' or q' == 1 mod 8"
	}
	if !keyproof.CanProve(pp, qp) {
		return "keyproof.CanProve says no"
	}
	if err := sk.Validate(); err != nil {
		return "Validate: " + err.Error()
	}
	if len(pk.R) != attrs {
		return "wrong number of bases"
	}
	order := sk.Order
	inQR := func(x *big.Int) bool {
		if x == nil || x.Sign() <= 0 || x.Cmp(n) >= 0 {
			return false
		}
		// x in QR_n  <=>  x^(p'q') == 1 (QR_n is cyclic of order p'q' for safe primes) and gcd(x,n)=1
		return new(big.Int).Exp(x, order, n).Cmp(one) == 0
	}
	generates := func(x *big.Int) bool {
		// generator of QR_n: order is neither p' nor q' (nor 1)
		return inQR(x) && new(big.Int).Exp(x, pp, n).Cmp(one) != 0 && new(big.Int).Exp(x, qp, n).Cmp(one) != 0
	}
	if !inQR(pk.S) || !inQR(pk.Z) || !inQR(pk.G) || !inQR(pk.H) {
		return "S, Z, G or H is not a quadratic residue"
	}
	for i, r := range pk.R {
		if !inQR(r) {
			return fmt.Sprintf("R[%d] is not a quadratic residue", i)
		}
	}
	// Z and R_i must lie in <S>: guaranteed for every QR when S generates QR_n
	if !generates(pk.S) {
		return "S does not generate QR_n (membership of Z, R_i in <S> not guaranteed)"
	}
	if pk.ECDSA == nil || sk.ECDSA == nil || !pk.ECDSA.Equal(&sk.ECDSA.PublicKey) {
		return "revocation key pair does not match"
	}
	if !pk.RevocationSupported() || !sk.RevocationSupported() {
		return "revocation part missing"
	}
	want := gabikeys.MakeDerivedParameters(pk.Params.BaseParameters)
	if pk.Params.DerivedParameters != want || int(pk.Params.Ln) != bits {
		return "system parameters inconsistent"
	}
	return ""
}

type c16Out struct {
	sk   *gabikeys.PrivateKey
	pk   *gabikeys.PublicKey
	err  error
	fp   *big.Int
	done bool
}

func execC16(r *kernel.Run, s C16Spec) {
	old := runtime.GOMAXPROCS(s.Procs)
	defer runtime.GOMAXPROCS(old)
	if s.FreeRun {
		execC16Free(r, s)
		return
	}
	kernel.SeedLibrary(r.T, s.LibSeed)
	buggify := map[string]bool{}
	for _, b := range s.Buggify {
		buggify[b] = true
	}
	outs := make([]c16Out, len(s.Bits)+1)
	var blocked []string
	var exhausted bool
	var sc *kernel.BSched
	prevReader := cryptorand.Reader
	sched := append([]uint16{}, s.Schedule...)
	// a panic in one of the library's own goroutines takes the process down: leave the in-flight spec behind
	markPending("C16", s, "generation")
	defer clearPending()
	panicked, deadlock := kernel.InBubbleLeaky(r.T, func() {
		sc = kernel.NewBSched(sched, s.LibSeed, buggify, nil, prevReader)
		sc.FailFrom, sc.FailCount = s.RandFailAt, s.RandFailN
		cryptorand.Reader = sc
		setHooks(&hookSet{yield: sc.Yield, spawned: sc.Spawned, exited: sc.Exited, buggify: sc.BuggifyAt})
		defer func() {
			setHooks(nil)
			cryptorand.Reader = prevReader
		}()
		for i := range s.Bits {
			i := i
			go func() {
				sc.Spawned(fmt.Sprintf("caller-%d", i))
				defer sc.Exited("caller")
				base := gabikeys.BaseParameters{LePrime: 120, Lh: 256, Lm: 256, Ln: uint(s.Bits[i]), Lstatzk: 80}
				params := &gabikeys.SystemParameters{BaseParameters: base, DerivedParameters: gabikeys.MakeDerivedParameters(base)}
				sk, pk, err := gabikeys.GenerateKeyPair(params, s.Attrs[i], uint(i), time.Unix(4000000000, 0))
				outs[i] = c16Out{sk: sk, pk: pk, err: err, done: true}
			}()
		}
		if s.FindPrime > 0 {
			go func() {
				sc.Spawned("caller-findSafePrime")
				defer sc.Exited("caller")
				var fp *big.Int
				var perr error
				func() {
					// findSafePrime has no error return: it panics with the error of the entropy source
					defer func() {
						if e := recover(); e != nil {
							perr = fmt.Errorf("%v", e)
						}
					}()
					fp = keyproof.VerifFindSafePrime(s.FindPrime)
				}()
				outs[len(s.Bits)] = c16Out{fp: fp, err: perr, done: true}
			}()
		}
		blocked, exhausted = sc.Drive(nil)
	})
	if panicked != nil {
		panic(panicked)
	}
	states := sc.TaskStates()
	r.Logf("bits=%v attrs=%v procs=%d steps=%d hash=%s states=%v deadlock=%v", s.Bits, s.Attrs, s.Procs, sc.Steps(), sc.SwitchHash(), states, deadlock)
	r.Distinct("interleaving " + sc.SwitchHash())
	r.Stats().Probes["steps"] += sc.Steps()
	r.Stats().Faults["preemption(context switch at a yield point)"] += len(sc.Sw)
	for _, b := range s.Buggify {
		r.Stats().Faults["buggify:"+b]++
	}
	if sc.Failed > 0 {
		r.Stats().Faults["entropy-read-error"] += sc.Failed
	}
	for k, v := range states {
		r.Stats().Probes["task:"+k] += v
	}
	if exhausted {
		r.Violate("C16:no-termination-within-step-budget", nil, "scheduling did not quiesce within %d steps", sc.Max)
		return
	}
	for i := range s.Bits {
		o := outs[i]
		r.Eval(1)
		if !o.done {
			r.Violate("C16:generation-did-not-return", map[string]any{"blocked": fmt.Sprint(blocked)}, "GenerateKeyPair %d never returned; blocked: %v", i, blocked)
			continue
		}
		if o.err != nil {
			if sc.Failed > 0 {
				// the entropy source failed: an error is the right answer (and no key must come with it)
				r.Probe("generation-failed-on-entropy-error")
				if o.sk != nil || o.pk != nil {
					r.Violate("C16:key-returned-with-error", nil, "GenerateKeyPair %d returned %v together with a key", i, o.err)
				}
				continue
			}
			if s.Bits[i]%2 == 1 {
				// no two primes of equal length multiply to an odd number of bits: refusing is a correct
				// answer (a key of exactly that length would be one too; never returning is not)
				r.Probe("odd-length-refused")
				continue
			}
			r.Violate("C16:generation-failed", nil, "GenerateKeyPair %d: %v", i, o.err)
			continue
		}
		if why := wellFormed(o.sk, o.pk, s.Bits[i], s.Attrs[i]); why != "" {
			r.Violate("C16:malformed-key", map[string]any{"why": why}, "generation %d (%d bits, %d bases): %s", i, s.Bits[i], s.Attrs[i], why)
		}
	}
	// keys generated side by side must not have anything in common: a shared prime factor breaks both
	for i := range s.Bits {
		for j := i + 1; j < len(s.Bits); j++ {
			if outs[i].pk == nil || outs[j].pk == nil {
				continue
			}
			r.Eval(1)
			if g := new(big.Int).GCD(nil, nil, outs[i].pk.N, outs[j].pk.N); g.Cmp(big.NewInt(1)) != 0 {
				r.Violate("C16:keys-share-a-prime-factor", nil, "the moduli of generations %d and %d (run side by side) have the common factor %v", i, j, g)
			}
		}
	}
	if s.FindPrime > 0 {
		o := outs[len(s.Bits)]
		switch {
		case !o.done:
			r.Violate("C16:generation-did-not-return", map[string]any{"blocked": fmt.Sprint(blocked), "which": "findSafePrime"}, "findSafePrime(%d) never returned; blocked: %v", s.FindPrime, blocked)
		case o.err != nil && sc.Failed > 0 && strings.Contains(o.err.Error(), kernel.ErrEntropy.Error()):
			r.Probe("generation-failed-on-entropy-error")
		case o.err != nil || o.fp == nil || !safeprime.ProbablySafePrime(o.fp, 40) || o.fp.BitLen() != s.FindPrime:
			r.Violate("C16:findSafePrime-wrong", nil, "findSafePrime(%d) returned %v (%v)", s.FindPrime, o.fp, o.err)
		}
	}
	if len(blocked) > 0 {
		site := "unknown"
		if len(blocked) > 0 {
			site = blocked[0]
		}
		r.Violate("C16:leak:"+classOfBlocked(site), map[string]any{"site": classOfBlocked(site)}, "after all callers returned %d library goroutines stay blocked forever: %v", len(blocked), blocked)
	} else if deadlock {
		r.Violate("C16:leak:unregistered-goroutine", nil, "bubble ended with blocked goroutines the scheduler does not know")
	} else {
		r.Probe("all-goroutines-exited")
	}
	r.Sample(map[string]any{"bits": s.Bits, "attrs": s.Attrs, "procs": s.Procs, "steps": sc.Steps(), "schedule_len": len(s.Schedule)})
}

func classOfBlocked(s string) string {
	// "safeprime.worker(last yield safeprime.worker:before-send)"
	if i := indexByte(s, '('); i > 0 {
		return s[:i] + "@" + s[i+len("(last yield "):len(s)-1]
	}
	return s
}

func TestC16(t *testing.T) {
	RunProp(t, Prop[C16Spec]{ID: "C16", Draw: drawC16, Exec: execC16})
}

var _ = rapid.Bool

func libGoroutines() int {
	buf := make([]byte, 1<<20)
	n := runtime.Stack(buf, true)
	return strings.Count(string(buf[:n]), "safeprime.GenerateConcurrent.func")
}

// execC16Free is the free-running stress class: real goroutines, real parallelism, the consumer
// stalled before it stops the workers.
func execC16Free(r *kernel.Run, s C16Spec) {
	kernel.SeedLibrary(r.T, s.LibSeed)
	before := libGoroutines()
	stall := time.Duration(s.StallMs) * time.Millisecond
	setHooks(&hookSet{yield: func(site string) {
		if site == "generateSafePrimePair:before-close-stop" || site == "findSafePrime:before-stop" {
			time.Sleep(stall) // slow consumer: workers keep producing into the results buffer
		}
	}})
	defer setHooks(nil)
	r.Fault("stalled-consumer")
	base := gabikeys.BaseParameters{LePrime: 120, Lh: 256, Lm: 256, Ln: 128, Lstatzk: 80}
	params := &gabikeys.SystemParameters{BaseParameters: base, DerivedParameters: gabikeys.MakeDerivedParameters(base)}
	for i := 0; i < s.Rounds; i++ {
		sk, pk, err := gabikeys.GenerateKeyPair(params, 2, uint(i), time.Unix(4000000000, 0))
		r.Eval(1)
		if err != nil {
			r.Violate("C16:generation-failed", nil, "free-running round %d: %v", i, err)
			return
		}
		if why := wellFormed(sk, pk, 128, 2); why != "" {
			r.Violate("C16:malformed-key", map[string]any{"why": why}, "free-running round %d: %s", i, why)
		}
	}
	// the worker protocol itself under a stalled consumer, with tiny primes so that the results
	// buffer fills within the stall and many workers reach the send at the same moment
	for i := 0; i < s.Rounds*8; i++ {
		stop := make(chan struct{})
		ints, errs := safeprime.GenerateConcurrent(16+(i%3)*4, stop)
		for k := 0; k < 1+i%3; k++ {
			select {
			case x := <-ints:
				if !safeprime.ProbablySafePrime(x, 20) {
					r.Violate("C16:generator-returned-non-safe-prime", nil, "GenerateConcurrent delivered %v", x)
				}
			case err := <-errs:
				r.Violate("C16:generation-failed", nil, "GenerateConcurrent: %v", err)
			}
		}
		deadline := time.Now().Add(stall)
		for len(ints) < cap(ints)-1 && time.Now().Before(deadline) {
			runtime.Gosched()
		}
		if i%2 == 0 {
			close(stop)
		} else {
			stop <- struct{}{}
		}
		r.Eval(1)
	}
	// every worker and watcher must be gone shortly after the last call returned
	left := 0
	for wait := 0; wait < 240; wait++ {
		if left = libGoroutines() - before; left <= 0 {
			break
		}
		time.Sleep(50 * time.Millisecond)
	}
	r.Logf("free-running rounds=%d procs=%d", s.Rounds, s.Procs)
	r.Probe("free-running-rounds")
	r.Distinct(fmt.Sprintf("free-run procs=%d stall=%d", s.Procs, s.StallMs))
	if left > 0 {
		r.Violate("C16:leak:free-running", map[string]any{"site": "free-running"}, "%d goroutines of the safe prime generator are still alive 12 s after %d generations returned", left, s.Rounds)
	} else {
		r.Probe("all-goroutines-exited")
	}
	r.Sample(map[string]any{"free_run": true, "rounds": s.Rounds, "procs": s.Procs, "stall_ms": s.StallMs})
}
