package checks

import (
	"crypto/sha256"
	"fmt"
	"strings"
	"testing"

	"github.com/privacybydesign/gabi"
	"github.com/privacybydesign/gabi/big"
	"github.com/privacybydesign/gabi/gabikeys"
	"pgregory.net/rapid"

	"verif/sim/kernel"
)

// C02 — proofs verify only in the session they were made for.
//
// World: several sessions alive at once (own context, nonce, session kind, key
// order, proof list); the transport misroutes every recorded list into every
// other session and alters, one element at a time, the tuple a list is verified
// under. Oracle: accepted <=> the tuple is exactly the one the list was built for.

type c02Session struct {
	IsSig    bool          `json:"is_sig"`
	Builders []BuilderSpec `json:"builders"`
}

type C02Spec struct {
	Keys      []string     `json:"keys"`
	LibSeed   uint64       `json:"lib_seed"`
	ValSeed   uint64       `json:"val_seed"`
	Sessions  []c02Session `json:"sessions"`
	OnlyFault []string     `json:"only_fault,omitempty"`
}

func drawC02(rt *rapid.T) C02Spec {
	s := C02Spec{LibSeed: rapid.Uint64().Draw(rt, "libseed"), ValSeed: rapid.Uint64().Draw(rt, "valseed")}
	nk := rapid.IntRange(1, 3).Draw(rt, "nkeys")
	big1 := rapid.IntRange(0, 49).Draw(rt, "big") == 0
	for i := 0; i < nk; i++ {
		pool := kernel.KeyNames(256)
		if i == 1 {
			pool = kernel.KeyNames(512)
		}
		if i == 0 && big1 {
			pool = kernel.KeyNames(1024)
		}
		s.Keys = append(s.Keys, rapid.SampledFrom(pool).Draw(rt, "key"))
	}
	ns := rapid.IntRange(2, 4).Draw(rt, "nsessions")
	if thorough() {
		ns = rapid.IntRange(2, 6).Draw(rt, "nsessions_t")
	}
	for i := 0; i < ns; i++ {
		cs := c02Session{IsSig: rapid.Bool().Draw(rt, "issig")}
		nb := rapid.IntRange(1, 4).Draw(rt, "nbuilders")
		for j := 0; j < nb; j++ {
			cs.Builders = append(cs.Builders, drawBuilderSpec(rt, nk, 1, true))
		}
		s.Sessions = append(s.Sessions, cs)
	}
	return s
}

func tupleString(context, nonce *big.Int, issig bool, keys []*gabikeys.PublicKey, proofs []string) string {
	var ks []string
	for _, k := range keys {
		ks = append(ks, k.Issuer)
	}
	return fmt.Sprintf("ctx=%s nonce=%s sig=%v keys=%s proofs=%s", context, nonce, issig, strings.Join(ks, ","), strings.Join(proofs, "|"))
}

func execC02(r *kernel.Run, s C02Spec) {
	if p := kernel.InBubble(r.T, func() { execC02Bubble(r, s) }); p != nil {
		panic(p)
	}
}

func execC02Bubble(r *kernel.Run, s C02Spec) {
	kernel.SeedLibrary(r.T, s.LibSeed)
	w := newWorld(r, s.ValSeed)
	var keys []*kernel.Key
	for _, n := range s.Keys {
		keys = append(keys, kernel.GetKey(n))
	}
	secret := newSecret()
	var live []*BuiltSession
	var proofStrs [][]string
	// object pool: every proof decoded exactly once; "object-reuse" deliveries hand the verifier the
	// same decoded objects again under another tuple (verification caches inside the proof objects)
	pool := map[string]gabi.Proof{}
	for i, cs := range s.Sessions {
		ctx, nonce := randBits(w.hr, 160+w.hr.IntN(90)), randBits(w.hr, 60+w.hr.IntN(60))
		// swarm: small contexts and nonces (context 1 is the IRMA default; 0 and 1 are one-bit neighbours)
		switch w.hr.IntN(6) {
		case 0:
			ctx = big.NewInt(int64(w.hr.IntN(3)))
		case 1:
			nonce = big.NewInt(int64(w.hr.IntN(3)))
		case 2:
			ctx, nonce = big.NewInt(int64(w.hr.IntN(2))), big.NewInt(int64(w.hr.IntN(2)))
		case 3:
			// long values (a signature session's nonce is derived from a message and a timestamp)
			ctx, nonce = randBits(w.hr, 300+w.hr.IntN(500)), randBits(w.hr, 257+w.hr.IntN(600))
		}
		bs := w.BuildSession(keys, []*big.Int{secret}, cs.Builders, ctx, nonce, cs.IsSig)
		live = append(live, bs)
		tree := kernel.MustDecode(bs.Wire).([]any)
		var ps []string
		for _, p := range tree {
			ps = append(ps, string(kernel.Encode(p)))
		}
		proofStrs = append(proofStrs, ps)
		var dec gabi.ProofList
		mustUnmarshal(bs.Wire, &dec)
		for k, p := range dec {
			pool[ps[k]] = p
		}
		r.Logf("session %d: %d proofs sig=%v", i, len(bs.List), cs.IsSig)
		r.Distinct(fmt.Sprintf("session shape %+v sig=%v", cs.Builders, cs.IsSig))
	}

	// deliver: verify `proofs` (encoded list elements) under the tuple; compare with the tuple the list was built for
	deliver := func(id string, kind string, orig int, context, nonce *big.Int, issig bool, ks []*gabikeys.PublicKey, proofs []string) {
		if !wanted(s.OnlyFault, id) {
			return
		}
		r.Eval(1)
		r.Fault(kind)
		// "same" = this exact list was built for exactly this tuple, in the session it comes from or in any
		// other live session (with contexts and nonces as small as 0 and 1 two sessions can share their whole
		// tuple; a one-proof list moved between them is then simply the other session's own list)
		same := false
		delivered := tupleString(context, nonce, issig, ks, proofs)
		for li, o := range live {
			if delivered == tupleString(o.Sess.Context, o.Sess.Nonce, o.Sess.IsSig, o.Sess.Keys, proofStrs[li]) {
				same = true
				if li != orig {
					r.Probe("alteration-yields-another-sessions-own-list")
				}
			}
		}
		wire := []byte("[" + strings.Join(proofs, ",") + "]")
		v := verifyWire(wire, Session{Context: context, Nonce: nonce, IsSig: issig, Keys: ks})
		if v.Panic != "" {
			r.Probe("receiver-panic(judged by C08)")
		}
		det := map[string]any{"fault": id, "kind": kind}
		if same {
			r.Probe("identity-alteration")
			if !v.Accepted {
				if v.Ambiguous {
					det["small_hidden_responses"] = ">=2"
				}
				r.Violate("C02:own-session-rejected", det, "%s: list rejected in its own session (decode=%v panic=%s)", id, v.DecodeErr, v.Panic)
			}
			return
		}
		if v.Accepted {
			r.Violate("C02:accepted-foreign-session:"+kind, det, "%s: list verifies although the tuple differs from the one it was made for", id)
		}
		// the same decoded objects verified again under this tuple
		var objs gabi.ProofList
		for _, ps := range proofs {
			if o, ok := pool[ps]; ok {
				objs = append(objs, o)
			}
		}
		if len(objs) == len(proofs) && len(objs) > 0 {
			r.Eval(1)
			r.Fault("object-reuse")
			vo := verifyObj(objs, Session{Context: context, Nonce: nonce, IsSig: issig, Keys: ks})
			if vo.Accepted && !same {
				r.Violate("C02:accepted-foreign-session:"+kind+":object-reuse", det, "%s: already verified proof objects verify again under a different tuple", id)
			}
			if !vo.Accepted && same && vo.Panic == "" && !v.Ambiguous {
				r.Violate("C02:own-session-rejected:object-reuse", det, "%s: proof objects rejected on re-verification in their own session", id)
			}
		}
	}

	one := big.NewInt(1)
	for i, o := range live {
		ps := proofStrs[i]
		base := func(id, kind string, f func(ctx, nonce **big.Int, sig *bool, ks *[]*gabikeys.PublicKey, proofs *[]string)) {
			ctx, nonce, sig := o.Sess.Context, o.Sess.Nonce, o.Sess.IsSig
			ks := append([]*gabikeys.PublicKey{}, o.Sess.Keys...)
			proofs := append([]string{}, ps...)
			f(&ctx, &nonce, &sig, &ks, &proofs)
			deliver(fmt.Sprintf("s%d:%s", i, id), kind, i, ctx, nonce, sig, ks, proofs)
		}
		base("own", "none", func(**big.Int, **big.Int, *bool, *[]*gabikeys.PublicKey, *[]string) {})
		// context and nonce
		for _, which := range []string{"context", "nonce"} {
			wh := which
			sel := func(ctx, nonce **big.Int) **big.Int {
				if wh == "context" {
					return ctx
				}
				return nonce
			}
			base(wh+"+1", wh, func(c, n **big.Int, _ *bool, _ *[]*gabikeys.PublicKey, _ *[]string) {
				p := sel(c, n)
				*p = new(big.Int).Add(*p, one)
			})
			if (*sel(&o.Sess.Context, &o.Sess.Nonce)).Sign() > 0 {
				base(wh+"-1", wh, func(c, n **big.Int, _ *bool, _ *[]*gabikeys.PublicKey, _ *[]string) {
					p := sel(c, n)
					*p = new(big.Int).Sub(*p, one)
				})
			}
			base(wh+"=0", wh, func(c, n **big.Int, _ *bool, _ *[]*gabikeys.PublicKey, _ *[]string) {
				p := sel(c, n)
				*p = big.NewInt(0)
			})
			for _, bit := range []int{0, 7, 8, (*sel(&o.Sess.Context, &o.Sess.Nonce)).BitLen() - 1, (*sel(&o.Sess.Context, &o.Sess.Nonce)).BitLen() + 8} {
				if bit < 0 {
					continue
				}
				b := bit
				base(fmt.Sprintf("%s^bit%d", wh, b), wh, func(c, n **big.Int, _ *bool, _ *[]*gabikeys.PublicKey, _ *[]string) {
					p := sel(c, n)
					v := new(big.Int).Set(*p)
					*p = v.SetBit(v, b, v.Bit(b)^1)
				})
			}
			base(wh+"<<8", wh, func(c, n **big.Int, _ *bool, _ *[]*gabikeys.PublicKey, _ *[]string) {
				p := sel(c, n)
				*p = new(big.Int).Lsh(*p, 8)
			})
			// structured relatives of the value: its SHA-256 digest, its low 256 bits, its high part
			base(wh+"=sha256", wh, func(c, n **big.Int, _ *bool, _ *[]*gabikeys.PublicKey, _ *[]string) {
				p := sel(c, n)
				h := sha256.Sum256((*p).Bytes())
				*p = new(big.Int).SetBytes(h[:])
			})
			base(wh+"=low256", wh, func(c, n **big.Int, _ *bool, _ *[]*gabikeys.PublicKey, _ *[]string) {
				p := sel(c, n)
				*p = new(big.Int).Mod(*p, pow2(256))
			})
			base(wh+">>8", wh, func(c, n **big.Int, _ *bool, _ *[]*gabikeys.PublicKey, _ *[]string) {
				p := sel(c, n)
				*p = new(big.Int).Rsh(*p, 8)
			})
		}
		base("context<->nonce", "swap-context-nonce", func(c, n **big.Int, _ *bool, _ *[]*gabikeys.PublicKey, _ *[]string) { *c, *n = *n, *c })
		base("flag", "issig", func(_, _ **big.Int, sig *bool, _ *[]*gabikeys.PublicKey, _ *[]string) { *sig = !*sig })
		// keys
		n := len(ps)
		for j := 0; j < n; j++ {
			jj := j
			for _, alt := range keys {
				a := alt
				if a.Pk == o.Sess.Keys[jj] {
					continue
				}
				base(fmt.Sprintf("key%d:=%s", jj, a.Name), "key-substitution", func(_, _ **big.Int, _ *bool, ks *[]*gabikeys.PublicKey, _ *[]string) { (*ks)[jj] = a.Pk })
			}
		}
		if n >= 2 {
			base("keys-swapped", "key-permutation", func(_, _ **big.Int, _ *bool, ks *[]*gabikeys.PublicKey, _ *[]string) {
				(*ks)[0], (*ks)[n-1] = (*ks)[n-1], (*ks)[0]
			})
			base("proofs-swapped", "proof-permutation", func(_, _ **big.Int, _ *bool, _ *[]*gabikeys.PublicKey, p *[]string) {
				(*p)[0], (*p)[n-1] = (*p)[n-1], (*p)[0]
			})
			base("both-swapped", "proof-permutation", func(_, _ **big.Int, _ *bool, ks *[]*gabikeys.PublicKey, p *[]string) {
				(*p)[0], (*p)[n-1] = (*p)[n-1], (*p)[0]
				(*ks)[0], (*ks)[n-1] = (*ks)[n-1], (*ks)[0]
			})
			base("rotate", "proof-permutation", func(_, _ **big.Int, _ *bool, ks *[]*gabikeys.PublicKey, p *[]string) {
				*p = append((*p)[1:], (*p)[0])
				*ks = append((*ks)[1:], (*ks)[0])
			})
			for j := 0; j < n; j++ {
				jj := j
				base(fmt.Sprintf("drop%d", jj), "drop-proof", func(_, _ **big.Int, _ *bool, ks *[]*gabikeys.PublicKey, p *[]string) {
					*p = append(append([]string{}, (*p)[:jj]...), (*p)[jj+1:]...)
					*ks = append(append([]*gabikeys.PublicKey{}, (*ks)[:jj]...), (*ks)[jj+1:]...)
				})
			}
		}
		base("drop-key-only", "key-count", func(_, _ **big.Int, _ *bool, ks *[]*gabikeys.PublicKey, _ *[]string) { *ks = (*ks)[:len(*ks)-1] })
		base("extra-key", "key-count", func(_, _ **big.Int, _ *bool, ks *[]*gabikeys.PublicKey, _ *[]string) { *ks = append(*ks, (*ks)[0]) })
		for j := 0; j < n; j++ {
			jj := j
			base(fmt.Sprintf("dup%d", jj), "dup-proof", func(_, _ **big.Int, _ *bool, ks *[]*gabikeys.PublicKey, p *[]string) {
				*p = append(*p, (*p)[jj])
				*ks = append(*ks, (*ks)[jj])
			})
		}
		base("empty", "empty-list", func(_, _ **big.Int, _ *bool, ks *[]*gabikeys.PublicKey, p *[]string) { *p, *ks = nil, nil })
		// misroute: this list delivered into every other live session (that session's tuple, this list's proofs)
		for k, other := range live {
			if k == i {
				continue
			}
			oo := other
			base(fmt.Sprintf("misroute->s%d", k), "misroute", func(c, nn **big.Int, sig *bool, ks *[]*gabikeys.PublicKey, _ *[]string) {
				*c, *nn, *sig = oo.Sess.Context, oo.Sess.Nonce, oo.Sess.IsSig
			})
			base(fmt.Sprintf("misroute-keys->s%d", k), "misroute", func(c, nn **big.Int, sig *bool, ks *[]*gabikeys.PublicKey, _ *[]string) {
				*c, *nn, *sig = oo.Sess.Context, oo.Sess.Nonce, oo.Sess.IsSig
				if len(oo.Sess.Keys) == len(*ks) {
					*ks = append([]*gabikeys.PublicKey{}, oo.Sess.Keys...)
				}
			})
			// splice: proof j of this list replaced by / appended with a proof of the other session
			for j := 0; j < n; j++ {
				jj := j
				op := proofStrs[k][jj%len(proofStrs[k])]
				ok := oo.Sess.Keys[jj%len(proofStrs[k])]
				base(fmt.Sprintf("splice%d<-s%d", jj, k), "splice", func(_, _ **big.Int, _ *bool, ks *[]*gabikeys.PublicKey, p *[]string) {
					(*p)[jj] = op
					(*ks)[jj] = ok
				})
			}
			base(fmt.Sprintf("append<-s%d", k), "splice", func(_, _ **big.Int, _ *bool, ks *[]*gabikeys.PublicKey, p *[]string) {
				*p = append(*p, proofStrs[k][0])
				*ks = append(*ks, oo.Sess.Keys[0])
			})
		}
	}
	r.Sample(s)
}

func TestC02(t *testing.T) {
	RunProp(t, Prop[C02Spec]{ID: "C02", Draw: drawC02, Exec: execC02,
		Minimise: func(s C02Spec, v kernel.Violation) C02Spec {
			if f, ok := v.Details["fault"].(string); ok {
				s.OnlyFault = []string{f}
			}
			return s
		}})
}
