package checks

import (
	"encoding/json"
	"fmt"
	"testing"
	"time"

	"github.com/fxamacker/cbor"
	"github.com/privacybydesign/gabi/big"
	"github.com/privacybydesign/gabi/revocation"
	"pgregory.net/rapid"

	"verif/sim/kernel"
)

// C10 — only authentic revocation updates are accepted.
//
// World: a revocation authority with a real event chain, a second authority
// (other key) as the source of foreign material, and a holder receiving update
// messages through memory, JSON or CBOR. Fault enumeration on the delivery:
// every field of the message is corrupted (path-addressed), events are deleted,
// inserted, swapped, re-indexed, hashes truncated/extended/substituted,
// accumulators substituted (stale, newer, foreign key), singly and in sampled
// pairs. Receivers: Witness.Update, Update.Verify, Update.Prepend. Oracle:
// success => what the receiver now holds is a contiguous slice of the real chain
// ending at a really signed accumulator; failure => receiver state unchanged.

type C10Spec struct {
	Key       string   `json:"key"`
	OtherKey  string   `json:"other_key"`
	LibSeed   uint64   `json:"lib_seed"`
	NRev      int      `json:"n_rev"`
	S, T      int      // window delivered
	WitAt     int      `json:"wit_at"`
	Pairs     int      `json:"pairs"`
	OnlyFault []string `json:"only_fault,omitempty"`
}

func drawC10(rt *rapid.T) C10Spec {
	s := C10Spec{LibSeed: rapid.Uint64().Draw(rt, "libseed")}
	names := kernel.KeyNames(256)
	s.Key = rapid.SampledFrom(names).Draw(rt, "key")
	var others []string
	for _, n := range append(append([]string{}, names...), kernel.KeyNames(512)...) {
		if n != s.Key {
			others = append(others, n) // includes keys with the same key counter (toy512-k has the counter of toy256-k)
		}
	}
	// a different chain under the same key is authentic by the property's own wording: foreign material comes from another key
	s.OtherKey = rapid.SampledFrom(others).Draw(rt, "other")
	s.NRev = rapid.IntRange(0, 8).Draw(rt, "nrev")
	s.T = rapid.IntRange(0, s.NRev).Draw(rt, "t")
	s.S = rapid.IntRange(0, s.T).Draw(rt, "s")
	s.WitAt = rapid.IntRange(0, s.T).Draw(rt, "witat")
	s.Pairs = rapid.IntRange(0, 60).Draw(rt, "pairs")
	return s
}

// wire mirrors of gabi's compressed update format (harness-owned intermediate form for CBOR faults)
type wireSAcc struct {
	Data []byte `json:"data"`
	PK   uint   `json:"pk"`
}
type wireEL struct {
	Index      uint64   `json:"i"`
	ParentHash []byte   `json:"hash"`
	E          [][]byte `json:"e"`
}
type wireUpdate struct {
	SAcc *wireSAcc `json:"sacc"`
	E    *wireEL   `json:"e,omitempty"`
}

func execC10(r *kernel.Run, s C10Spec) {
	if p := kernel.InBubble(r.T, func() { execC10Bubble(r, s) }); p != nil {
		panic(p)
	}
}

func execC10Bubble(r *kernel.Run, s C10Spec) {
	kernel.SeedLibrary(r.T, s.LibSeed)
	key, okey := kernel.GetKey(s.Key), kernel.GetKey(s.OtherKey)
	// public key objects as gabi's own constructors and readers leave them: the Issuer name is empty (the
	// committed harness keys carry one for the keyshare world); two keys are then told apart by nothing
	// but their values
	{
		k1, k2 := *key, *okey
		p1, p2 := *key.Pk, *okey.Pk
		p1.Issuer, p2.Issuer = "", ""
		k1.Pk, k2.Pk = &p1, &p2
		key, okey = &k1, &k2
	}
	pk := key.Pk
	ra, err := kernel.NewRevAuthority(key)
	if err != nil {
		panic(err)
	}
	ora, err := kernel.NewRevAuthority(okey)
	if err != nil {
		panic(err)
	}
	var wits []*revocation.Witness
	for i := 0; i <= s.NRev; i++ {
		w, err := ra.NewWitness(i)
		if err != nil {
			panic(err)
		}
		wits = append(wits, w)
		if i == s.NRev {
			break
		}
		for _, a := range []*kernel.RevAuthority{ra, ora} {
			o, err := revocation.RandomWitness(a.Key.Sk, a.Accs[a.Head()])
			if err != nil {
				panic(err)
			}
			if err := a.Revoke(o.E); err != nil {
				panic(err)
			}
		}
	}
	r.Logf("key=%s other=%s nrev=%d window=%d..%d witness@%d", s.Key, s.OtherKey, s.NRev, s.S, s.T, s.WitAt)
	r.Distinct(fmt.Sprintf("nrev=%d s=%d t=%d wit=%d samekey=%v", s.NRev, s.S, s.T, s.WitAt, s.Key == s.OtherKey))

	// ledger predicate
	authentic := func(u *revocation.Update) string {
		if u == nil || u.SignedAccumulator == nil || u.SignedAccumulator.Accumulator == nil {
			return "no verified accumulator"
		}
		acc := u.SignedAccumulator.Accumulator
		if u.SignedAccumulator.PKCounter != key.Pk.Counter {
			return "signed for another key counter"
		}
		if acc.Index > uint64(ra.Head()) {
			return "accumulator index beyond the chain"
		}
		led := ra.Accs[acc.Index]
		if led.Nu.Cmp(acc.Nu) != 0 || string(led.EventHash) != string(acc.EventHash) {
			return "accumulator never produced by the authority"
		}
		for k, ev := range u.Events {
			if ev == nil || ev.E == nil {
				return "null event"
			}
			if ev.Index > uint64(ra.Head()) {
				return "event index beyond the chain"
			}
			le := ra.Events[ev.Index]
			if le.E.Cmp(ev.E) != 0 || string(le.ParentHash) != string(ev.ParentHash) {
				return fmt.Sprintf("event %d is not the authority's", k)
			}
			if k > 0 && ev.Index != u.Events[k-1].Index+1 {
				return "events not contiguous"
			}
		}
		if n := len(u.Events); n > 0 && u.Events[n-1].Index != acc.Index {
			return "last event is not the accumulator's"
		}
		return ""
	}

	freshWitnessAt := func(i int) *revocation.Witness {
		if i < 0 || i >= len(wits) {
			return nil
		}
		src := wits[i]
		sacc := *src.SignedAccumulator
		return &revocation.Witness{U: new(big.Int).Set(src.U), E: new(big.Int).Set(src.E), SignedAccumulator: &sacc, Updated: src.Updated}
	}
	freshWitness := func() *revocation.Witness {
		src := wits[s.WitAt]
		sacc := *src.SignedAccumulator
		return &revocation.Witness{U: new(big.Int).Set(src.U), E: new(big.Int).Set(src.E), SignedAccumulator: &sacc, Updated: src.Updated}
	}

	// receive delivers one (possibly corrupted) update to the three receivers
	receive := func(id, kind string, mk func() (*revocation.Update, error)) {
		if !wanted(s.OnlyFault, id) {
			return
		}
		r.Fault(kind)
		det := map[string]any{"fault": id, "kind": kind}
		// (1) Update.Verify
		var u *revocation.Update
		var derr error
		if p, fr := guardFrame(func() { u, derr = mk() }); p != "" {
			r.Violate("C10:panic:decode:"+fr, det, "%s: decoding the update panics: %s", id, p)
			return
		}
		if derr != nil {
			r.Probe("decode-error")
			return
		}
		r.Eval(1)
		var verr error
		if p, fr := guardFrame(func() { _, verr = u.Verify(pk) }); p != "" {
			r.Violate("C10:panic:Update.Verify:"+fr, det, "%s: Update.Verify panics: %s", id, p)
			return
		}
		if verr == nil {
			r.Probe("verify-accepted")
			if why := authentic(u); why != "" {
				r.Violate("C10:unauthentic-update-verified", det, "%s: Update.Verify accepts: %s", id, why)
			}
		} else {
			r.Probe("verify-rejected")
			// the same rejected message object offered again (retry): it must stay rejected, by
			// Update.Verify and by a witness, and must not have been changed by the rejection
			var verr2, uerr2 error
			wr := freshWitness()
			beforeR := witSnap(wr)
			if p, fr := guardFrame(func() { _, verr2 = u.Verify(pk); uerr2 = wr.Update(pk, u) }); p != "" {
				r.Violate("C10:panic:re-offer:"+fr, det, "%s: re-offering the rejected update panics: %s", id, p)
				return
			}
			if verr2 == nil && authentic(u) != "" {
				r.Violate("C10:rejected-update-accepted-when-offered-again", det, "%s: Update.Verify rejected the message (%v) and accepts the same object on the second offer: %s", id, verr, authentic(u))
			}
			if uerr2 == nil && witSnap(wr) != beforeR {
				acc := wr.SignedAccumulator.Accumulator
				if acc == nil || acc.Index > uint64(ra.Head()) || ra.Accs[acc.Index].Nu.Cmp(acc.Nu) != 0 {
					r.Violate("C10:rejected-update-accepted-when-offered-again", det, "%s: a witness accepted the previously rejected message object and moved to an unauthentic accumulator", id)
				}
			}
		}
		// (2) Witness.Update on a fresh decode (verification caches inside the object)
		u2, _ := mk()
		w := freshWitness()
		before := witSnap(w)
		var uerr error
		r.Eval(1)
		if p, fr := guardFrame(func() { uerr = w.Update(pk, u2) }); p != "" {
			r.Violate("C10:panic:Witness.Update:"+fr, det, "%s: Witness.Update panics: %s", id, p)
			return
		}
		if uerr != nil {
			if witSnap(w) != before {
				r.Violate("C10:state-changed-on-rejection", det, "%s: witness changed although Update returned %v", id, uerr)
			}
		} else {
			acc := w.SignedAccumulator.Accumulator
			if acc == nil || acc.Index > uint64(ra.Head()) || ra.Accs[acc.Index].Nu.Cmp(acc.Nu) != 0 || w.SignedAccumulator.PKCounter != pk.Counter {
				r.Violate("C10:witness-moved-to-unauthentic-accumulator", det, "%s: witness now holds an accumulator the authority never signed", id)
			} else if err := w.Verify(pk); err != nil {
				r.Violate("C10:witness-invalid-after-accepted-update", det, "%s: %v", id, err)
			}
			if witSnap(w) != before && verr != nil {
				r.Violate("C10:witness-updated-by-update-that-does-not-verify", det, "%s: Update.Verify says %v", id, verr)
			}
		}
	}

	honest, err := ra.Update(s.S, s.T)
	if err != nil {
		panic(err)
	}
	honestJSON := mustJSON(honest)
	honestCBOR, err := cbor.Marshal(honest, cbor.EncOptions{})
	if err != nil {
		panic(err)
	}
	fromJSON := func(b []byte) func() (*revocation.Update, error) {
		return func() (*revocation.Update, error) {
			u := &revocation.Update{}
			return u, json.Unmarshal(b, u)
		}
	}
	fromCBOR := func(b []byte) func() (*revocation.Update, error) {
		return func() (*revocation.Update, error) {
			u := &revocation.Update{}
			return u, cbor.Unmarshal(b, u)
		}
	}
	// honest deliveries must work (fault-free class)
	for name, mk := range map[string]func() (*revocation.Update, error){"json": fromJSON(honestJSON), "cbor": fromCBOR(honestCBOR)} {
		u, err := mk()
		if err != nil {
			r.Violate("C10:honest-update-undecodable", map[string]any{"codec": name}, "%v", err)
			return
		}
		if _, err := u.Verify(pk); err != nil {
			r.Violate("C10:honest-update-rejected", map[string]any{"codec": name}, "%v", err)
			return
		}
		if why := authentic(u); why != "" {
			panic("ledger predicate rejects an honest update: " + why)
		}
	}

	// --- JSON: the whole path-addressed catalogue
	tree := kernel.MustDecode(honestJSON)
	opts := kernel.MutOpts{Values: true, Structural: true}
	muts := kernel.Mutations(tree, opts)
	for _, m := range muts {
		receive("json:"+m.ID, "tamper-field:json", fromJSON(m.Apply(tree)))
	}
	hr := hrand(s.LibSeed, 10)
	for k := 0; k < s.Pairs && len(muts) > 1; k++ {
		a, b := muts[hr.IntN(len(muts))], muts[hr.IntN(len(muts))]
		receive("json:pair:"+a.ID+"+"+b.ID, "tamper-field:pair", fromJSON(kernel.Encode(b.Do(a.Do(kernel.Clone(tree))))))
	}
	// --- CBOR: same catalogue on the harness's mirror of the wire format
	var mirror wireUpdate
	if err := cbor.Unmarshal(honestCBOR, &mirror); err != nil {
		panic(err)
	}
	mtree := kernel.MustDecode(mustJSON(mirror))
	for _, m := range kernel.Mutations(mtree, opts) {
		var mm wireUpdate
		if json.Unmarshal(m.Apply(mtree), &mm) != nil {
			r.Probe("cbor-mutant-not-encodable")
			continue
		}
		b, err := cbor.Marshal(mm, cbor.EncOptions{})
		if err != nil {
			continue
		}
		receive("cbor:"+m.ID, "tamper-field:cbor", fromCBOR(b))
	}
	// --- frame shifts: the event hash covers index || parent hash || E without length framing, so a byte
	// can be moved between the first event's parent hash and its E (CBOR carries both as raw byte strings,
	// and in memory nothing is decoded at all); likewise E and -E have the same bytes
	if mirror.E != nil && len(mirror.E.E) > 0 && len(mirror.E.E[0]) > 1 && len(mirror.E.ParentHash) > 1 {
		shift := func(dir int) wireUpdate {
			mm := mirror
			el := *mirror.E
			el.E = append([][]byte{}, mirror.E.E...)
			ph, e0 := mirror.E.ParentHash, mirror.E.E[0]
			if dir > 0 { // first byte of E appended to the parent hash
				el.ParentHash = append(append([]byte{}, ph...), e0[0])
				el.E[0] = append([]byte{}, e0[1:]...)
			} else { // last byte of the parent hash prepended to E
				el.ParentHash = append([]byte{}, ph[:len(ph)-1]...)
				el.E[0] = append([]byte{ph[len(ph)-1]}, e0...)
			}
			mm.E = &el
			return mm
		}
		for _, dir := range []int{1, -1} {
			mm := shift(dir)
			if b, err := cbor.Marshal(mm, cbor.EncOptions{}); err == nil {
				receive(fmt.Sprintf("cbor:frame-shift:%+d", dir), "tamper-field:frame-shift", fromCBOR(b))
			}
			receive(fmt.Sprintf("memory:frame-shift:%+d", dir), "tamper-field:frame-shift", func() (*revocation.Update, error) {
				u := &revocation.Update{}
				if err := json.Unmarshal(honestJSON, u); err != nil {
					return nil, err
				}
				out := &revocation.Update{SignedAccumulator: u.SignedAccumulator}
				for k, ev := range u.Events {
					ne := &revocation.Event{Index: ev.Index, E: ev.E, ParentHash: ev.ParentHash}
					if k == 0 {
						ne.ParentHash = revocation.Hash(mm.E.ParentHash)
						ne.E = new(big.Int).SetBytes(mm.E.E[0])
					}
					out.Events = append(out.Events, ne)
				}
				return out, nil
			})
		}
	}
	if len(honest.Events) > 0 {
		for _, k := range []int{0, len(honest.Events) - 1} {
			kk := k
			receive(fmt.Sprintf("memory:negated-E:%d", kk), "tamper-field:frame-shift", func() (*revocation.Update, error) {
				u := &revocation.Update{}
				if err := json.Unmarshal(honestJSON, u); err != nil {
					return nil, err
				}
				out := &revocation.Update{SignedAccumulator: u.SignedAccumulator}
				for j, ev := range u.Events {
					ne := &revocation.Event{Index: ev.Index, E: ev.E, ParentHash: ev.ParentHash}
					if j == kk {
						ne.E = new(big.Int).Neg(ev.E)
					}
					out.Events = append(out.Events, ne)
				}
				return out, nil
			})
		}
	}
	// --- chain-level substitutions (all through JSON so nothing is pre-verified)
	sub := func(id string, sacc *revocation.SignedAccumulator, evs []*revocation.Event) {
		u := &revocation.Update{SignedAccumulator: &revocation.SignedAccumulator{Data: sacc.Data, PKCounter: sacc.PKCounter}, Events: evs}
		b, err := json.Marshal(u)
		if err != nil {
			return
		}
		receive("chain:"+id, "substitution", fromJSON(b))
	}
	evs := func(a *kernel.RevAuthority, from, to int) []*revocation.Event {
		if from > to || to > a.Head() {
			return nil
		}
		return append([]*revocation.Event{}, a.Events[from:to+1]...)
	}
	if s.T >= 1 {
		sub("stale-accumulator-newer-events", ra.SAccs[s.T-1], evs(ra, s.S, s.T))
		sub("accumulator-with-events-missing-the-last", ra.SAccs[s.T], evs(ra, min(s.S, s.T-1), s.T-1))
	}
	if s.T < ra.Head() {
		sub("newer-accumulator-older-events", ra.SAccs[s.T+1], evs(ra, s.S, s.T))
	}
	sub("foreign-accumulator", ora.SAccs[s.T], evs(ra, s.S, s.T))
	sub("foreign-events", ra.SAccs[s.T], evs(ora, s.S, s.T))
	sub("foreign-update", ora.SAccs[s.T], evs(ora, s.S, s.T))
	{
		sa := *ra.SAccs[s.T]
		sa.PKCounter++
		sub("counter+1", &sa, evs(ra, s.S, s.T))
	}
	if s.T-s.S >= 2 {
		e := evs(ra, s.S, s.T)
		gap := append(append([]*revocation.Event{}, e[:1]...), e[2:]...)
		sub("gap-in-events", ra.SAccs[s.T], gap)
		sw := append([]*revocation.Event{}, e...)
		sw[0], sw[1] = sw[1], sw[0]
		sub("swapped-events", ra.SAccs[s.T], sw)
	}
	{
		// in-memory hash manipulation: truncated-but-self-consistent, extended, and prefix-sharing multihashes
		e := evs(ra, s.S, s.T)
		for ti, f := range []func(h revocation.Hash) revocation.Hash{
			func(h revocation.Hash) revocation.Hash { return append(revocation.Hash{h[0], 4}, h[2:6]...) },
			func(h revocation.Hash) revocation.Hash { return append(append(revocation.Hash{}, h...), 0) },
			func(h revocation.Hash) revocation.Hash { return append(revocation.Hash{}, h[:len(h)-1]...) },
			func(h revocation.Hash) revocation.Hash { return append(revocation.Hash{}, h[:2]...) },
			func(h revocation.Hash) revocation.Hash {
				c := append(revocation.Hash{}, h...)
				c[len(c)-1] ^= 1
				return c
			},
			func(h revocation.Hash) revocation.Hash {
				c := append(revocation.Hash{}, h...)
				c[0] = 0x13 // sha2-512 code with a 32 byte digest
				return c
			},
		} {
			for pos := range e {
				ee := make([]*revocation.Event, len(e))
				for k := range e {
					cp := *e[k]
					ee[k] = &cp
				}
				ee[pos].ParentHash = f(ee[pos].ParentHash)
				id := fmt.Sprintf("mem:hash%d@%d", ti, pos)
				if !wanted(s.OnlyFault, id) {
					continue
				}
				receive(id, "tamper-memory:hash", func() (*revocation.Update, error) {
					cp := make([]*revocation.Event, len(ee))
					for k := range ee {
						c := *ee[k]
						cp[k] = &c
					}
					return &revocation.Update{SignedAccumulator: &revocation.SignedAccumulator{Data: ra.SAccs[s.T].Data, PKCounter: ra.SAccs[s.T].PKCounter}, Events: cp}, nil
				})
			}
		}
	}

	// --- another chain under the SAME key (one issuer key signs the accumulators of all its credential
	// types) at the witness's own index, signed later: authentic by signature, but not this witness's
	// accumulator. Only the witness is judged (Update.Verify rightly accepts the message): whatever
	// Update returns, the witness must still be valid for an accumulator of its own chain.
	if wanted(s.OnlyFault, "same-key-other-chain-same-index") {
		sra, err := kernel.NewRevAuthority(key)
		if err != nil {
			panic(err)
		}
		wi := int(wits[s.WitAt].SignedAccumulator.Accumulator.Index)
		for sra.Head() < wi {
			o, err := revocation.RandomWitness(key.Sk, sra.Accs[sra.Head()])
			if err != nil {
				panic(err)
			}
			if err := sra.Revoke(o.E); err != nil {
				panic(err)
			}
		}
		time.Sleep(2 * time.Hour)
		if err := sra.Resign(wi); err != nil {
			panic(err)
		}
		for _, withEvents := range []bool{false, true} {
			from := wi + 1
			if withEvents {
				from = wi
			}
			fu, err := sra.Update(from, wi)
			if err != nil {
				panic(err)
			}
			b := mustJSON(fu)
			r.Fault("substitution")
			r.Eval(1)
			u, _ := fromJSON(b)()
			wt := freshWitness()
			var uerr error
			if p, fr := guardFrame(func() { uerr = wt.Update(pk, u) }); p != "" {
				r.Violate("C10:panic:Witness.Update:"+fr, map[string]any{"fault": "same-key-other-chain-same-index"}, "Witness.Update panics: %s", p)
				continue
			}
			if verr := wt.Verify(pk); verr != nil {
				r.Violate("C10:witness-invalid-after-accepted-update", map[string]any{"fault": "same-key-other-chain-same-index"},
					"an update of another chain under the same key (same index %d, signed later, events=%v) returned %v and left the witness invalid: %v", wi, withEvents, uerr, verr)
			} else {
				r.Probe("other-chain-update-harmless")
			}
		}
	}
	// --- Byzantine issuer: a genuinely signed accumulator without a value (Nu absent or 0), at the witness's
	// index (signed later) and at the next index with a genuine event list. Whatever the witness answers, it
	// must not panic and must stay valid.
	if wanted(s.OnlyFault, "byzantine-issuer:accumulator-without-value") {
		wi := int(wits[s.WitAt].SignedAccumulator.Accumulator.Index)
		for vi, nu := range []*big.Int{nil, big.NewInt(0)} {
			for _, idx := range []int{wi, min(wi+1, ra.Head())} {
				acc := *ra.Accs[idx]
				acc.Nu = nu
				acc.Time += 7200
				sacc, err := acc.Sign(key.Sk)
				if err != nil {
					continue
				}
				var evl []*revocation.Event
				if idx > wi {
					evl = evs(ra, wi+1, idx)
				}
				u := &revocation.Update{SignedAccumulator: &revocation.SignedAccumulator{Data: sacc.Data, PKCounter: sacc.PKCounter}, Events: evl}
				b, err := json.Marshal(u)
				if err != nil {
					continue
				}
				r.Fault("substitution")
				r.Eval(1)
				du, derr := fromJSON(b)()
				if derr != nil {
					r.Probe("decode-error")
					continue
				}
				wt := freshWitness()
				var uerr error
				det := map[string]any{"fault": "byzantine-issuer:accumulator-without-value", "variant": vi}
				if p, fr := guardFrame(func() { uerr = wt.Update(pk, du) }); p != "" {
					r.Violate("C10:panic:Witness.Update:"+fr, det, "an issuer-signed accumulator whose value is %v makes Witness.Update panic: %s", nu, p)
					continue
				}
				if verr := wt.Verify(pk); verr != nil {
					r.Violate("C10:witness-invalid-after-accepted-update", det, "an issuer-signed accumulator whose value is %v (index %d) returned %v and left the witness invalid: %v", nu, idx, uerr, verr)
				}
			}
		}
	}
	// --- one decoded message object first verified under the key it was signed with (a verifier serving
	// several issuers), then offered to this key's receivers
	if wanted(s.OnlyFault, "object-verified-under-other-key-first") && ora.Head() >= 0 {
		t2 := min(s.T, ora.Head())
		ou, err := ora.Update(min(s.S, t2), t2)
		if err == nil {
			b := mustJSON(ou)
			receive("object-verified-under-other-key-first", "substitution", func() (*revocation.Update, error) {
				u := &revocation.Update{}
				if err := json.Unmarshal(b, u); err != nil {
					return nil, err
				}
				if _, err := u.Verify(okey.Pk); err != nil {
					return nil, err
				}
				return u, nil
			})
		}
	}
	// --- Prepend: older events (possibly corrupted) prepended to an honest, verified update
	if s.S >= 1 && wanted(s.OnlyFault, "prepend") || len(s.OnlyFault) > 0 && s.S >= 1 {
		older := revocation.NewEventList(evs(ra, 0, s.S-1)...)
		otree := kernel.MustDecode(mustJSON(older))
		try := func(id string, elJSON []byte, compute bool) {
			if !wanted(s.OnlyFault, id) {
				return
			}
			r.Fault("tamper-field:prepend")
			base, _ := fromJSON(honestJSON)()
			if _, err := base.Verify(pk); err != nil {
				panic(err)
			}
			el := &revocation.EventList{ComputeProduct: compute}
			var derr error
			if p, fr := guardFrame(func() { derr = json.Unmarshal(elJSON, el) }); p != "" {
				r.Violate("C10:panic:decode:"+fr, map[string]any{"fault": id}, "%s: decoding the event list panics: %s", id, p)
				return
			}
			if derr != nil {
				return
			}
			// the update object has been used before (its product of events is cached) ...
			wa := freshWitnessAt(int(base.Events[0].Index) - 1)
			if wa != nil {
				if err := wa.Update(pk, base); err != nil {
					panic(fmt.Sprintf("honest update before prepend failed: %v", err))
				}
			}
			n0, first0 := len(base.Events), base.Events[0].Index
			var perr error
			r.Eval(1)
			if p, fr := guardFrame(func() { perr = base.Prepend(el) }); p != "" {
				r.Violate("C10:panic:Update.Prepend:"+fr, map[string]any{"fault": id}, "%s: Prepend panics: %s", id, p)
				return
			}
			if perr != nil {
				if len(base.Events) != n0 || base.Events[0].Index != first0 {
					r.Violate("C10:state-changed-on-rejection", map[string]any{"fault": id, "prepend": true}, "%s: update changed by a failed Prepend", id)
				}
				// ... and is used again after the rejected Prepend: it must serve a second witness exactly as it served the first
				if wb := freshWitnessAt(int(first0) - 1); wb != nil {
					if err := wb.Update(pk, base); err != nil {
						r.Violate("C10:state-changed-on-rejection", map[string]any{"fault": id, "prepend": true, "later_use": true}, "%s: after a rejected Prepend the update object no longer updates a witness it updated before: %v", id, err)
					}
				}
				r.Probe("prepend-rejected")
				return
			}
			r.Probe("prepend-accepted")
			if why := authentic(base); why != "" {
				r.Violate("C10:unauthentic-events-prepended", map[string]any{"fault": id}, "%s: Prepend succeeded: %s", id, why)
			}
		}
		try("prepend:honest", mustJSON(older), false)
		for _, m := range kernel.Mutations(otree, opts) {
			try("prepend:"+m.ID, m.Apply(otree), m.ID[len(m.ID)-1]%2 == 0)
		}
		fel := revocation.NewEventList(evs(ora, 0, s.S-1)...)
		try("prepend:foreign-events", mustJSON(fel), true)
		// indices at the edge of the integer type (the generic catalogue stops at 2^62)
		for _, idx := range []string{"18446744073709551615", "18446744073709551614", "9223372036854775808", "9223372036854775807"} {
			t2 := kernel.Set(kernel.Clone(otree), kernel.Path{"i"}, jsonNumber(idx))
			try("prepend:index="+idx, kernel.Encode(t2), false)
		}
	}
	// --- Prepend onto an update without events (a legitimate message: just the current signed accumulator)
	// and onto an update that was decoded but never verified
	if wanted(s.OnlyFault, "prepend:onto-eventless-update") || wanted(s.OnlyFault, "prepend:onto-unverified-update") {
		for _, verified := range []bool{true, false} {
			id := map[bool]string{true: "prepend:onto-eventless-update", false: "prepend:onto-unverified-update"}[verified]
			if !wanted(s.OnlyFault, id) {
				continue
			}
			var base *revocation.Update
			if verified {
				eu, err := ra.Update(s.T+1, s.T)
				if err != nil {
					panic(err)
				}
				base, _ = fromJSON(mustJSON(eu))()
				if _, err := base.Verify(pk); err != nil {
					panic(err)
				}
			} else {
				base, _ = fromJSON(honestJSON)()
			}
			el := &revocation.EventList{}
			mustUnmarshal(mustJSON(revocation.NewEventList(evs(ra, 0, min(s.T, ra.Head()))...)), el)
			r.Fault("tamper-field:prepend")
			r.Eval(1)
			if p, fr := guardFrame(func() { _ = base.Prepend(el) }); p != "" {
				r.Violate("C10:panic:Update.Prepend:"+fr, map[string]any{"fault": id}, "%s: Prepend panics: %s", id, p)
			}
		}
	}
	r.Sample(s)
}

func TestC10(t *testing.T) {
	RunProp(t, Prop[C10Spec]{ID: "C10", Draw: drawC10, Exec: execC10,
		Minimise: func(s C10Spec, v kernel.Violation) C10Spec {
			if f, ok := v.Details["fault"].(string); ok {
				s.OnlyFault = []string{f}
			}
			return s
		}})
}
