package checks

import (
	"crypto/sha256"
	"fmt"
	"testing"

	"github.com/privacybydesign/gabi"
	"github.com/privacybydesign/gabi/big"
	"pgregory.net/rapid"

	"verif/sim/kernel"
)

// C07 — proof randomness is never reused (engine T, sequential and interleaved classes).
//
// Histories of {prepare cache, prove with/without non-revocation / range, build
// linked list, issuance commitment} over 1..3 credentials, run as caller tasks
// under the controlled scheduler (or strictly one after the other), with witness
// updates and holder restarts at barriers and a buggified cache miss. Oracle over
// ALL pairs of produced proofs: the harness knows every hidden value (ledger), so
// it recovers each commitment randomizer as response - c*value and demands that
// no randomizer, randomised signature element or non-revocation / range
// commitment occurs twice, and that a prepared commitment is in at most one proof.

func drawC07(rt *rapid.T) TSpec {
	maxTasks := 6
	if thorough() {
		maxTasks = 32
	}
	kinds := []int{tPrepare, tPrepare, tProveNonrev, tProveNonrev, tProveNonrev, tProvePlain, tProveRange, tProveList, tIssueCommit, tIssueRetry, tProveAfterFailedCommit}
	s := drawTSpec(rt, kinds, maxTasks, 4, 3)
	s.Sequential = rapid.IntRange(0, 3).Draw(rt, "sequential") == 0
	return s
}

func exponentOf(m *big.Int, lm uint) *big.Int {
	if m.BitLen() > int(lm) {
		h := sha256.Sum256(m.Bytes())
		return new(big.Int).SetBytes(h[:])
	}
	return m
}

type usedVal struct {
	what  string
	proof string
	list  string
}

func execC07(r *kernel.Run, s TSpec) {
	res := runT(r, s)
	r.Distinct(fmt.Sprintf("seq=%v interleaving=%v phases=%d", s.Sequential, res.SwitchH, len(s.Phases)))
	if res.Switches > 0 {
		r.Probe("runs-with-context-switches")
	}
	if s.Sequential {
		r.Probe("sequential-history")
	}
	checkTResultValidity(r, "C07", res)
	checkRandomnessReuse(r, "C07", res)
	r.Sample(map[string]any{"phases": s.Phases, "barrier": s.Barrier, "sequential": s.Sequential, "proofs": len(res.Proofs), "switches": res.Switches})
}

// checkRandomnessReuse is the all-pairs oracle: no commitment randomizer, randomised signature
// element, non-revocation or range commitment occurs in two proofs of a run.
func checkRandomnessReuse(r *kernel.Run, prop string, res *tResult) {
	pk := res.Key.Pk
	lm := pk.Params.Lm

	seen := map[string]usedVal{}
	builderSeen := map[string]bool{}
	firstAnswer := map[string]*gabi.ProofU{}
	use := func(kind string, v *big.Int, what, proof, list string) {
		if v == nil {
			return
		}
		k := kind + ":" + v.String()
		if prev, ok := seen[k]; ok {
			if prev.list == list && kind == "rand:secretkey" {
				return // proofs of one linked list share the secret-key randomizer by construction
			}
			r.Violate(prop+":randomness-reused:"+stripDigits(kind), map[string]any{"kind": kind}, "%s of %s equals %s of %s", what, proof, prev.what, prev.proof)
			return
		}
		seen[k] = usedVal{what, proof, list}
	}
	e0 := pow2(pk.Params.Le - 1)
	for _, p := range res.Proofs {
		var pl gabi.ProofList
		mustUnmarshal(p.Wire, &pl)
		listID := fmt.Sprintf("p%dt%do%d.%d", p.Phase, p.Task, p.Op, p.Seq)
		for li, pr := range pl {
			id := fmt.Sprintf("%s[%d]", listID, li)
			switch x := pr.(type) {
			case *gabi.ProofD:
				ci := p.Cred
				if li == 1 {
					ci = p.Cred2
				}
				hc := res.Creds[ci]
				c := x.C
				for _, i := range sortedIntKeys(x.AResponses) {
					if i >= len(hc.Led.Ms) {
						continue
					}
					m := exponentOf(hc.Led.Ms[i], lm)
					rnd := new(big.Int).Sub(x.AResponses[i], new(big.Int).Mul(c, m))
					if rnd.Sign() < 0 {
						r.Violate(prop+":response-not-randomizer-plus-c-times-value", nil, "%s attribute %d", id, i)
						continue
					}
					kind := fmt.Sprintf("rand:attr%d:cred%d", i, ci)
					if i == 0 {
						kind = "rand:secretkey"
					}
					use(kind, rnd, fmt.Sprintf("randomizer of attribute %d", i), id, listID)
					r.Eval(1)
				}
				// e: response = eCommit + c*(e - 2^(le-1))
				ePrime := new(big.Int).Sub(hc.Cred.Signature.E, e0)
				use(fmt.Sprintf("rand:e:cred%d", ci), new(big.Int).Sub(x.EResponse, new(big.Int).Mul(c, ePrime)), "randomizer of e", id, listID)
				use("A", x.A, "randomised signature element A", id, listID)
				if np := x.NonRevocationProof; np != nil {
					use("C_r", np.Cr, "non-revocation commitment C_r (a prepared commitment may be consumed once)", id, listID)
					use("C_u", np.Cu, "non-revocation commitment C_u", id, listID)
					r.Probe("nonrev-proof-checked")
				}
				for idx, rps := range x.RangeProofs {
					for k, rp := range rps {
						for j, cs := range rp.Cs {
							use("rangeC", cs, fmt.Sprintf("range commitment C%d of statement %d on attribute %d", j, k, idx), id, listID)
						}
					}
				}
			case *gabi.ProofU:
				secret := res.Creds[0].Led.Secret
				use("rand:secretkey", new(big.Int).Sub(x.SResponse, new(big.Int).Mul(x.C, secret)), "randomizer of the secret key (ProofU)", id, listID)
				// two answers of one builder: the two-transcript extractor (difference of responses divided by
				// the difference of challenges) must fail for v' and for the user's shares of random-blind
				// attributes as well; with fresh randomizers the division is exact with probability 2^-256
				if p.SameBuilder != "" {
					if prev := firstAnswer[p.SameBuilder]; prev != nil && prev.C.Cmp(x.C) != 0 {
						dc := new(big.Int).Sub(prev.C, x.C)
						exact := func(a, b *big.Int) bool {
							if a == nil || b == nil {
								return false
							}
							d := new(big.Int).Sub(a, b)
							return new(big.Int).Mod(d, new(big.Int).Abs(dc)).Sign() == 0
						}
						if exact(prev.VPrimeResponse, x.VPrimeResponse) {
							r.Violate(prop+":randomness-reused:rand:vprime", map[string]any{"kind": "rand:vprime"}, "%s: two issuance commitments of one builder used the same randomizer for v': the extractor recovers v' (and with it R_0^secret)", id)
						}
						for i, a := range prev.MUserResponses {
							if exact(a, x.MUserResponses[i]) {
								r.Violate(prop+":randomness-reused:rand:blind-share", map[string]any{"kind": "rand:blind-share"}, "%s: two issuance commitments of one builder used the same randomizer for the user's share of random-blind attribute %d", id, i)
							}
						}
					} else if prev == nil {
						firstAnswer[p.SameBuilder] = x
					}
				}
				// one builder answering twice shows the same U by construction; across builders it must differ
				if p.SameBuilder == "" || !builderSeen[p.SameBuilder] {
					use("U", x.U, "issuance commitment U", id, listID)
				} else {
					r.Probe("builder-answered-twice")
				}
				if p.SameBuilder != "" {
					builderSeen[p.SameBuilder] = true
				}
			}
		}
	}
}

func TestC07(t *testing.T) {
	RunProp(t, Prop[TSpec]{ID: "C07", Draw: drawC07, Exec: execC07})
}

func stripDigits(s string) string {
	out := make([]byte, 0, len(s))
	for i := 0; i < len(s); i++ {
		if s[i] < '0' || s[i] > '9' {
			out = append(out, s[i])
		}
	}
	return string(out)
}
