package checks

import (
	"encoding/json"
	"fmt"
	mrand "math/rand/v2"
	"sort"

	"github.com/privacybydesign/gabi"
	"github.com/privacybydesign/gabi/big"
	"github.com/privacybydesign/gabi/gabikeys"
	"github.com/privacybydesign/gabi/rangeproof"
	"github.com/privacybydesign/gabi/revocation"

	"verif/sim/kernel"
)

// ---------------------------------------------------------------------------
// harness-side randomness (never the library's): derived from a spec field

func hrand(seed uint64, stream uint64) *mrand.Rand {
	return mrand.New(mrand.NewPCG(seed, stream^0x9e3779b97f4a7c15))
}

func randBits(r *mrand.Rand, bits int) *big.Int {
	if bits <= 0 {
		return big.NewInt(0)
	}
	b := make([]byte, (bits+7)/8)
	for i := range b {
		b[i] = byte(r.Uint32())
	}
	v := new(big.Int).SetBytes(b)
	v.Mod(v, pow2(uint(bits)))
	return v.SetBit(v, bits-1, 1) // exactly bits long
}

// attribute value classes (boundary sizes around the message length Lm)
const nValueClasses = 9

func attrValue(class int, lm uint, r *mrand.Rand) *big.Int {
	one := big.NewInt(1)
	switch class % nValueClasses {
	case 0:
		return big.NewInt(0)
	case 1:
		return big.NewInt(1)
	case 2:
		return big.NewInt(int64(2 + r.IntN(65000)))
	case 3:
		return new(big.Int).Sub(new(big.Int).Lsh(one, lm), one) // 2^Lm-1: largest unhashed
	case 4:
		return new(big.Int).Lsh(one, lm) // 2^Lm: smallest hashed
	case 5:
		return new(big.Int).Add(new(big.Int).Lsh(one, lm), randBits(r, 64))
	case 6:
		return randBits(r, int(3*lm))
	case 7:
		return randBits(r, int(lm))
	default:
		return randBits(r, 128)
	}
}

func bigs(v ...int64) []*big.Int {
	out := make([]*big.Int, len(v))
	for i := range v {
		out[i] = big.NewInt(v[i])
	}
	return out
}

// ---------------------------------------------------------------------------
// ledger: ground truth recorded as the world runs

// LedgerCred is what really was signed.
type LedgerCred struct {
	Key     *kernel.Key
	Secret  *big.Int   // the holder's own share
	Server  *big.Int   // keyshare server share (nil if none)
	Ms      []*big.Int // signed message block, Ms[0] = user secret
	Witness *big.Int   // revocation value e (nil if none)
}

// TotalSecret is user share + keyshare-server share.
func (l *LedgerCred) TotalSecret() *big.Int {
	if l.Server == nil {
		return l.Secret
	}
	return new(big.Int).Add(l.Secret, l.Server)
}

// signCredential makes the issuer sign (secret, attrs...) directly with
// SignMessageBlock; the issuance protocol itself is the subject of C06.
func signCredential(key *kernel.Key, secret *big.Int, attrs []*big.Int) (*gabi.Credential, *LedgerCred) {
	ms := append([]*big.Int{secret}, attrs...)
	sig, err := gabi.SignMessageBlock(key.Sk, key.Pk, ms)
	if err != nil {
		panic(err)
	}
	if !sig.Verify(key.Pk, ms) {
		panic("fresh signature does not verify")
	}
	cred := &gabi.Credential{Signature: sig, Pk: key.Pk, Attributes: ms}
	led := &LedgerCred{Key: key, Secret: secret, Ms: append([]*big.Int{}, ms...)}
	return cred, led
}

// signRevCredential additionally gives the credential a witness from ra (its
// value appended as last attribute, as the issuer does).
func signRevCredential(key *kernel.Key, ra *kernel.RevAuthority, secret *big.Int, attrs []*big.Int) (*gabi.Credential, *LedgerCred) {
	w, err := ra.NewWitness(ra.Head())
	if err != nil {
		panic(err)
	}
	cred, led := signCredential(key, secret, append(append([]*big.Int{}, attrs...), w.E))
	cred.NonRevocationWitness = w
	led.Witness = w.E
	return cred, led
}

func newSecret() *big.Int {
	s, err := gabi.GenerateSecretAttribute()
	if err != nil {
		panic(err)
	}
	return s
}

// ---------------------------------------------------------------------------
// session tuple and the verifier shell

type Session struct {
	Context, Nonce *big.Int
	IsSig          bool
	Keys           []*gabikeys.PublicKey
	Labels         []string
}

// Verdict is what the verifier shell observed for one delivered message.
type Verdict struct {
	DecodeErr error
	Panic     string
	Accepted  bool
	List      gabi.ProofList
}

// verifyWire is the verifier shell: bytes in, decode with gabi's decoder, verify.
func verifyWire(wire []byte, s Session) (v Verdict) {
	if p := guard(func() { v.DecodeErr = json.Unmarshal(wire, &v.List) }); p != "" {
		v.Panic = "decode: " + p
		return
	}
	if v.DecodeErr != nil {
		return
	}
	if p := guard(func() { v.Accepted = v.List.Verify(s.Keys, s.Context, s.Nonce, s.IsSig, s.Labels) }); p != "" {
		v.Panic = "verify: " + p
		v.Accepted = false
	}
	return
}

// verifyObj delivers an in-memory proof list (for alterations the text codecs cannot carry, e.g. negative integers).
func verifyObj(pl gabi.ProofList, s Session) (v Verdict) {
	v.List = pl
	if p := guard(func() { v.Accepted = pl.Verify(s.Keys, s.Context, s.Nonce, s.IsSig, s.Labels) }); p != "" {
		v.Panic = "verify: " + p
		v.Accepted = false
	}
	return
}

func mustJSON(v any) []byte {
	b, err := json.Marshal(v)
	if err != nil {
		panic(fmt.Sprintf("cannot encode honest message: %v", err))
	}
	return b
}

func sortedIntKeys(m map[int]*big.Int) []int {
	ks := make([]int, 0, len(m))
	for k := range m {
		ks = append(ks, k)
	}
	sort.Ints(ks)
	return ks
}

func pow2(n uint) *big.Int { return new(big.Int).Lsh(big.NewInt(1), n) }

// maskToIndices turns bit i of mask into attribute index i+1 (index 0, the secret, is never disclosed).
func maskToIndices(mask, n int) []int {
	var out []int
	for i := 0; i < n; i++ {
		if mask&(1<<i) != 0 {
			out = append(out, i+1)
		}
	}
	return out
}

var _ = rangeproof.GreaterOrEqual
var _ = revocation.ErrorRevoked

func mustUnmarshal(b []byte, v any) {
	if err := json.Unmarshal(b, v); err != nil {
		panic(err)
	}
}
