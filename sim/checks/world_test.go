package checks

import (
	"encoding/json"
	"fmt"
	mrand "math/rand/v2"
	"sort"

	"github.com/privacybydesign/gabi"
	"github.com/privacybydesign/gabi/big"
	"github.com/privacybydesign/gabi/gabikeys"
	"github.com/privacybydesign/gabi/rangeproof"
	"github.com/privacybydesign/gabi/revocation"
	"pgregory.net/rapid"

	"verif/sim/kernel"
)

// ---------------------------------------------------------------------------
// harness-side randomness (never the library's): derived from a spec field

func hrand(seed uint64, stream uint64) *mrand.Rand {
	return mrand.New(mrand.NewPCG(seed, stream^0x9e3779b97f4a7c15))
}

func randBits(r *mrand.Rand, bits int) *big.Int {
	if bits <= 0 {
		return big.NewInt(0)
	}
	b := make([]byte, (bits+7)/8)
	for i := range b {
		b[i] = byte(r.Uint32())
	}
	v := new(big.Int).SetBytes(b)
	v.Mod(v, pow2(uint(bits)))
	return v.SetBit(v, bits-1, 1) // exactly bits long
}

// attribute value classes (boundary sizes around the message length Lm)
const nValueClasses = 9

func attrValue(class int, lm uint, r *mrand.Rand) *big.Int {
	one := big.NewInt(1)
	switch class % nValueClasses {
	case 0:
		return big.NewInt(0)
	case 1:
		return big.NewInt(1)
	case 2:
		return big.NewInt(int64(2 + r.IntN(65000)))
	case 3:
		return new(big.Int).Sub(new(big.Int).Lsh(one, lm), one) // 2^Lm-1: largest unhashed
	case 4:
		return new(big.Int).Lsh(one, lm) // 2^Lm: smallest hashed
	case 5:
		return new(big.Int).Add(new(big.Int).Lsh(one, lm), randBits(r, 64))
	case 6:
		return randBits(r, int(3*lm))
	case 7:
		return randBits(r, int(lm))
	default:
		return randBits(r, 128)
	}
}

func bigs(v ...int64) []*big.Int {
	out := make([]*big.Int, len(v))
	for i := range v {
		out[i] = big.NewInt(v[i])
	}
	return out
}

// ---------------------------------------------------------------------------
// ledger: ground truth recorded as the world runs

// LedgerCred is what really was signed.
type LedgerCred struct {
	Key     *kernel.Key
	Secret  *big.Int   // the holder's own share
	Server  *big.Int   // keyshare server share (nil if none)
	Ms      []*big.Int // signed message block, Ms[0] = user secret
	Witness *big.Int   // revocation value e (nil if none)
}

// TotalSecret is user share + keyshare-server share.
func (l *LedgerCred) TotalSecret() *big.Int {
	if l.Server == nil {
		return l.Secret
	}
	return new(big.Int).Add(l.Secret, l.Server)
}

// signCredential makes the issuer sign (secret, attrs...) directly with
// SignMessageBlock; the issuance protocol itself is the subject of C06.
func signCredential(key *kernel.Key, secret *big.Int, attrs []*big.Int) (*gabi.Credential, *LedgerCred) {
	ms := append([]*big.Int{secret}, attrs...)
	sig, err := gabi.SignMessageBlock(key.Sk, key.Pk, ms)
	if err != nil {
		panic(err)
	}
	if !sig.Verify(key.Pk, ms) {
		panic("fresh signature does not verify")
	}
	cred := &gabi.Credential{Signature: sig, Pk: key.Pk, Attributes: ms}
	led := &LedgerCred{Key: key, Secret: secret, Ms: append([]*big.Int{}, ms...)}
	return cred, led
}

// signRevCredential additionally gives the credential a witness from ra (its
// value appended as last attribute, as the issuer does).
func signRevCredential(key *kernel.Key, ra *kernel.RevAuthority, secret *big.Int, attrs []*big.Int) (*gabi.Credential, *LedgerCred) {
	w, err := ra.NewWitness(ra.Head())
	if err != nil {
		panic(err)
	}
	cred, led := signCredential(key, secret, append(append([]*big.Int{}, attrs...), w.E))
	cred.NonRevocationWitness = w
	led.Witness = w.E
	return cred, led
}

func newSecret() *big.Int {
	s, err := gabi.GenerateSecretAttribute()
	if err != nil {
		panic(err)
	}
	return s
}

// ---------------------------------------------------------------------------
// session tuple and the verifier shell

type Session struct {
	Context, Nonce *big.Int
	IsSig          bool
	Keys           []*gabikeys.PublicKey
	Labels         []string
}

// Verdict is what the verifier shell observed for one delivered message.
type Verdict struct {
	DecodeErr error
	Panic     string
	Accepted  bool
	Ambiguous bool // verdict depended on map order; Accepted means "accepted every time"
	List      gabi.ProofList
	// Accepted2 is the verdict of verifying the very same decoded objects a second time
	// (verification caches inside proof objects); Second says whether that was done.
	Accepted2, Second bool
}

// verifyWire is the verifier shell: bytes in, decode with gabi's decoder, verify.
func verifyWire(wire []byte, s Session) (v Verdict) { return verifyWire2(wire, s, false) }

// verifyWireTwice additionally verifies the same decoded objects a second time.
func verifyWireTwice(wire []byte, s Session) (v Verdict) { return verifyWire2(wire, s, true) }

// checkReverify: a verdict must not depend on whether the proof objects were verified before.
func checkReverify(r *kernel.Run, prop, fault string, v Verdict) {
	if v.Second && !v.Ambiguous && v.Accepted2 != v.Accepted {
		r.Violate(prop+":verdict-changes-on-reverification", map[string]any{"fault": fault, "second": v.Accepted2},
			"%s: first verification of the decoded proof objects says %v, verifying the same objects again says %v", fault, v.Accepted, v.Accepted2)
	}
}

func verifyWire2(wire []byte, s Session, reverify bool) (v Verdict) {
	if p := guard(func() { v.DecodeErr = json.Unmarshal(wire, &v.List) }); p != "" {
		v.Panic = "decode: " + p
		return
	}
	if v.DecodeErr != nil {
		return
	}
	if p := guard(func() { v.Accepted = v.List.Verify(s.Keys, s.Context, s.Nonce, s.IsSig, s.Labels) }); p != "" {
		v.Panic = "verify: " + p
		v.Accepted = false
		return
	}
	if reverify {
		v.Second = true
		if p := guard(func() { v.Accepted2 = v.List.Verify(s.Keys, s.Context, s.Nonce, s.IsSig, s.Labels) }); p != "" {
			v.Panic = "re-verify: " + p
			v.Accepted2 = false
		}
	}
	// Map-order hole (DESIGN section 4): when a proof with a non-revocation part has two hidden
	// responses below 2^580 the verdict of one Verify call depends on Go's map iteration order.
	// Such a delivery is verified repeatedly (fresh decode each time) and counts as accepted only
	// if every verification accepts, which makes the verdict the oracle sees repeatable.
	for _, p := range v.List {
		if pd, ok := p.(*gabi.ProofD); ok && pd.NonRevocationProof != nil && smallResponseClass(pd) == ">=2" {
			v.Ambiguous = true
		}
	}
	for i := 0; v.Ambiguous && v.Accepted && i < 16; i++ {
		var l2 gabi.ProofList
		if json.Unmarshal(wire, &l2) != nil {
			break
		}
		if p := guard(func() { v.Accepted = l2.Verify(s.Keys, s.Context, s.Nonce, s.IsSig, s.Labels) }); p != "" {
			v.Panic = "verify: " + p
			v.Accepted = false
		}
	}
	return
}

// verifyObj delivers an in-memory proof list (for alterations the text codecs cannot carry, e.g. negative integers).
func verifyObj(pl gabi.ProofList, s Session) (v Verdict) {
	v.List = pl
	if p := guard(func() { v.Accepted = pl.Verify(s.Keys, s.Context, s.Nonce, s.IsSig, s.Labels) }); p != "" {
		v.Panic = "verify: " + p
		v.Accepted = false
	}
	return
}

func mustJSON(v any) []byte {
	b, err := json.Marshal(v)
	if err != nil {
		panic(fmt.Sprintf("cannot encode honest message: %v", err))
	}
	return b
}

func sortedIntKeys(m map[int]*big.Int) []int {
	ks := make([]int, 0, len(m))
	for k := range m {
		ks = append(ks, k)
	}
	sort.Ints(ks)
	return ks
}

func pow2(n uint) *big.Int { return new(big.Int).Lsh(big.NewInt(1), n) }

// maskToIndices turns bit i of mask into attribute index i+1 (index 0, the secret, is never disclosed).
func maskToIndices(mask, n int) []int {
	var out []int
	for i := 0; i < n; i++ {
		if mask&(1<<i) != 0 {
			out = append(out, i+1)
		}
	}
	return out
}

var _ = rangeproof.GreaterOrEqual
var _ = revocation.ErrorRevoked

func mustUnmarshal(b []byte, v any) {
	if err := json.Unmarshal(b, v); err != nil {
		panic(err)
	}
}

// ---------------------------------------------------------------------------
// World: keys, revocation authorities and holders of one run.

type World struct {
	r   *kernel.Run
	hr  *mrand.Rand
	ras map[string]*kernel.RevAuthority
}

func newWorld(r *kernel.Run, valSeed uint64) *World {
	return &World{r: r, hr: hrand(valSeed, 77), ras: map[string]*kernel.RevAuthority{}}
}

func (w *World) RA(key *kernel.Key) *kernel.RevAuthority {
	if ra := w.ras[key.Name]; ra != nil {
		return ra
	}
	ra, err := kernel.NewRevAuthority(key)
	if err != nil {
		panic(err)
	}
	w.ras[key.Name] = ra
	return ra
}

// HeldCred is a credential in a holder's wallet together with its ledger entry.
type HeldCred struct {
	Cred *gabi.Credential
	Led  *LedgerCred
}

// NewCred has the issuer of key sign n attributes of the given classes for secret.
func (w *World) NewCred(key *kernel.Key, secret *big.Int, classes []int, nonrev bool) *HeldCred {
	var attrs []*big.Int
	for _, c := range classes {
		attrs = append(attrs, attrValue(c, key.Pk.Params.Lm, w.hr))
	}
	if nonrev {
		c, l := signRevCredential(key, w.RA(key), secret, attrs)
		return &HeldCred{c, l}
	}
	c, l := signCredential(key, secret, attrs)
	return &HeldCred{c, l}
}

// BuilderSpec describes one element of a proof-builder list.
type BuilderSpec struct {
	Issuance bool  `json:"issuance"` // CredentialBuilder (ProofU) instead of disclosure
	Key      int   `json:"key"`      // index into the run's key list
	Holder   int   `json:"holder"`   // which secret
	NAttrs   int   `json:"n_attrs"`
	Mask     int   `json:"mask"`
	Nonrev   bool  `json:"nonrev"`
	Range    bool  `json:"range"`
	Blind    []int `json:"blind,omitempty"`
}

func drawBuilderSpec(rt *rapid.T, nkeys, nholders int, allowExtras bool) BuilderSpec {
	b := BuilderSpec{Key: rapid.IntRange(0, nkeys-1).Draw(rt, "bkey"), Holder: rapid.IntRange(0, nholders-1).Draw(rt, "holder")}
	b.Issuance = rapid.IntRange(0, 3).Draw(rt, "issuance") == 0
	b.NAttrs = rapid.IntRange(1, 4).Draw(rt, "nattrs")
	b.Mask = rapid.IntRange(0, (1<<b.NAttrs)-1).Draw(rt, "mask")
	if allowExtras && !b.Issuance {
		b.Nonrev = rapid.IntRange(0, 3).Draw(rt, "nonrev") == 0
		b.Range = rapid.IntRange(0, 3).Draw(rt, "range") == 0
	}
	if b.Issuance && rapid.Bool().Draw(rt, "hasblind") {
		b.Blind = []int{rapid.IntRange(0, 2).Draw(rt, "blind")}
	}
	return b
}

// BuiltSession is an honest proof list with everything the oracles need.
type BuiltSession struct {
	Sess     Session
	Builders gabi.ProofBuilderList
	List     gabi.ProofList
	Wire     []byte
	Creds    []*HeldCred // per builder (nil for issuance builders)
	Secrets  []*big.Int  // per builder: the holder secret it proves knowledge of
}

// BuildSession lets the holders (colluding if several) build one proof list for the tuple.
func (w *World) BuildSession(keys []*kernel.Key, secrets []*big.Int, bs []BuilderSpec, context, nonce *big.Int, issig bool) *BuiltSession {
	out := &BuiltSession{Sess: Session{Context: context, Nonce: nonce, IsSig: issig}}
	for _, b := range bs {
		key := keys[b.Key]
		secret := secrets[b.Holder]
		out.Sess.Keys = append(out.Sess.Keys, key.Pk)
		out.Secrets = append(out.Secrets, secret)
		if b.Issuance {
			cb, err := gabi.NewCredentialBuilder(key.Pk, context, secret, randBits(w.hr, 80), nil, b.Blind)
			if err != nil {
				panic(err)
			}
			out.Builders = append(out.Builders, cb)
			out.Creds = append(out.Creds, nil)
			continue
		}
		classes := make([]int, b.NAttrs)
		for i := range classes {
			classes[i] = 2 + w.hr.IntN(2)*6 // small or 128-bit values: range statements below need small ones
			if b.Range {
				classes[i] = 2
			}
		}
		hc := w.NewCred(key, secret, classes, b.Nonrev)
		disclosed := maskToIndices(b.Mask, b.NAttrs)
		var stmts map[int][]*rangeproof.Statement
		if b.Range {
			for i := 1; i <= b.NAttrs; i++ {
				if b.Mask&(1<<(i-1)) == 0 {
					ge, _ := rangeproof.NewStatement(rangeproof.GreaterOrEqual, big.NewInt(1))
					stmts = map[int][]*rangeproof.Statement{i: {ge}}
					break
				}
			}
		}
		db, err := hc.Cred.CreateDisclosureProofBuilder(disclosed, stmts, b.Nonrev)
		if err != nil {
			panic(err)
		}
		out.Builders = append(out.Builders, db)
		out.Creds = append(out.Creds, hc)
	}
	pl, err := out.Builders.BuildProofList(context, nonce, issig)
	if err != nil {
		panic(err)
	}
	out.List = pl
	out.Wire = mustJSON(pl)
	return out
}

// smallResponseClass classifies a proof by the number of hidden responses below 2^580, the bound
// under which ProofD verification takes a response to be the revocation attribute's: "1" is the
// normal case, ">=2" the ambiguous one (see known_findings.jsonl, C11).
func smallResponseClass(pd *gabi.ProofD) string {
	p := revocation.Parameters
	bound := pow2(p.AttributeSize + p.ChallengeLength + p.ZkStat + 1)
	n := 0
	for _, v := range pd.AResponses {
		if v != nil && v.Cmp(bound) < 0 {
			n++
		}
	}
	if n >= 2 {
		return ">=2"
	}
	return fmt.Sprint(n)
}

// fixedBuilder is a harness ProofBuilder contributing fixed values: it lets the harness reach the
// library's own challenge hash through the public API instead of re-implementing it.
type fixedBuilder struct{ vals []*big.Int }

func (f fixedBuilder) Commit(map[string]*big.Int) ([]*big.Int, error) { return f.vals, nil }
func (f fixedBuilder) CreateProof(*big.Int) gabi.Proof                { return nil }
func (f fixedBuilder) PublicKey() *gabikeys.PublicKey                 { return nil }
func (f fixedBuilder) SetProofPCommitment(*gabi.ProofPCommitment)     {}

// gabiHashCommit returns the library's hash of (v[0], v[1..n-2], v[n-1]) for non-signature sessions.
func gabiHashCommit(v []*big.Int) *big.Int {
	c, err := gabi.ProofBuilderList{fixedBuilder{v[1 : len(v)-1]}}.ChallengeWithRandomizers(v[0], v[len(v)-1], nil, false)
	if err != nil {
		panic(err)
	}
	return c
}

func jsonNumber(s string) json.Number { return json.Number(s) }
