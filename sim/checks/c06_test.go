package checks

import (
	"encoding/json"
	"fmt"
	"strings"
	"testing"

	"github.com/privacybydesign/gabi"
	"github.com/privacybydesign/gabi/big"
	"github.com/privacybydesign/gabi/gabikeys"
	"github.com/privacybydesign/gabi/revocation"
	"pgregory.net/rapid"

	"verif/sim/kernel"
)

// C06 — issuance: honest runs succeed, deviations are rejected.
//
// World: issuer and holder shells around the real three-message protocol
// (nonce1 -> IssueCommitmentMessage -> IssueSignatureMessage), every message
// crossing the wire as JSON, with a second concurrent run (other holder, other
// nonces) as the source of replayed and spliced traffic. Fault enumeration: at
// each of the three deliveries the whole catalogue is applied one fault at a
// time and the protocol is run to its end. Oracle: no credential comes out of a
// run in which a protected element was altered, and any credential that does
// come out satisfies the honest-run predicate against the issuer's ledger.

type C06Spec struct {
	Key       string   `json:"key"`
	LibSeed   uint64   `json:"lib_seed"`
	ValSeed   uint64   `json:"val_seed"`
	Classes   []int    `json:"classes"`
	Blind     []int    `json:"blind"` // indices into Classes that are random blind
	Witness   bool     `json:"witness"`
	OnlyFault []string `json:"only_fault,omitempty"`
}

func drawC06(rt *rapid.T) C06Spec {
	s := C06Spec{LibSeed: rapid.Uint64().Draw(rt, "libseed"), ValSeed: rapid.Uint64().Draw(rt, "valseed")}
	s.Key = drawKeyName(rt, "key")
	// up to as many attributes as the key has bases for (all committed keys have 8 bases: secret + 7)
	maxAttrs := len(kernel.GetKey(s.Key).Pk.R) - 1
	n := rapid.IntRange(1, maxAttrs).Draw(rt, "nattrs")
	for i := 0; i < n; i++ {
		s.Classes = append(s.Classes, rapid.IntRange(0, nValueClasses-1).Draw(rt, "class"))
	}
	mask := rapid.IntRange(0, (1<<n)-1).Draw(rt, "blindmask")
	if rapid.Bool().Draw(rt, "noblind") {
		mask = 0
	}
	for i := 0; i < n; i++ {
		if mask&(1<<i) != 0 {
			s.Blind = append(s.Blind, i)
		}
	}
	s.Witness = rapid.Bool().Draw(rt, "witness")
	if n == maxAttrs {
		s.Witness = false // the witness value needs a base of its own
	}
	return s
}

type msg1 struct {
	Context *big.Int `json:"context"`
	Nonce1  *big.Int `json:"nonce1"`
}

// issuanceRun is one protocol run: the state each party keeps between messages.
type issuanceRun struct {
	key     *kernel.Key
	ra      *kernel.RevAuthority
	secret  *big.Int
	context *big.Int
	nonce1  *big.Int
	attrs   []*big.Int // issuer's attribute list (nil at blind positions), witness value appended if any
	blind   []int
	witness *revocation.Witness

	builder *gabi.CredentialBuilder // holder, volatile
	wire1   []byte
	wire2   []byte
	wire3   []byte
	mIssuer map[int]*big.Int // ledger: issuer shares
}

func (ir *issuanceRun) holderStart(w1 []byte) (wire2 []byte, err error) {
	var m msg1
	if err := json.Unmarshal(w1, &m); err != nil {
		return nil, err
	}
	if m.Context == nil || m.Nonce1 == nil {
		return nil, fmt.Errorf("incomplete first message")
	}
	nonce2, err := gabi.GenerateNonce()
	if err != nil {
		return nil, err
	}
	b, err := gabi.NewCredentialBuilder(ir.key.Pk, m.Context, ir.secret, nonce2, nil, ir.blind)
	if err != nil {
		return nil, err
	}
	ir.builder = b
	cm, err := b.CommitToSecretAndProve(m.Nonce1)
	if err != nil {
		return nil, err
	}
	return json.Marshal(cm)
}

// issuerAnswer is the issuer shell: it does what IssueSignature's doc comment demands first.
func (ir *issuanceRun) issuerAnswer(w2 []byte) (wire3 []byte, err error) {
	var cm gabi.IssueCommitmentMessage
	if err := json.Unmarshal(w2, &cm); err != nil {
		return nil, err
	}
	if !cm.Proofs.Verify([]*gabikeys.PublicKey{ir.key.Pk}, ir.context, ir.nonce1, false, nil) {
		return nil, fmt.Errorf("commitment proofs do not verify")
	}
	pu, err := cm.Proofs.GetFirstProofU()
	if err != nil {
		return nil, err
	}
	var wit *revocation.Witness
	if ir.witness != nil {
		cp := *ir.witness
		wit = &cp
	}
	issuer := gabi.NewIssuer(ir.key.Sk, ir.key.Pk, ir.context)
	sm, err := issuer.IssueSignature(pu.U, ir.attrs, wit, cm.Nonce2, ir.blind)
	if err != nil {
		return nil, err
	}
	ir.mIssuer = sm.MIssuer
	return json.Marshal(sm)
}

func (ir *issuanceRun) holderFinish(w3 []byte) (*gabi.Credential, error) {
	var sm gabi.IssueSignatureMessage
	if err := json.Unmarshal(w3, &sm); err != nil {
		return nil, err
	}
	return ir.builder.ConstructCredential(&sm, ir.attrs)
}

func newIssuanceRun(w *World, key *kernel.Key, classes, blind []int, witness bool) *issuanceRun {
	ir := &issuanceRun{key: key, secret: newSecret(), context: randBits(w.hr, 200), nonce1: randBits(w.hr, 80), blind: blind}
	isBlind := map[int]bool{}
	for _, b := range blind {
		isBlind[b] = true
	}
	for i, c := range classes {
		if isBlind[i] {
			ir.attrs = append(ir.attrs, nil)
		} else {
			ir.attrs = append(ir.attrs, attrValue(c, key.Pk.Params.Lm, w.hr))
		}
	}
	if witness {
		ir.ra = w.RA(key)
		wit, err := ir.ra.NewWitness(ir.ra.Head())
		if err != nil {
			panic(err)
		}
		ir.witness = wit
		ir.attrs = append(ir.attrs, wit.E)
	}
	ir.wire1 = mustJSON(msg1{ir.context, ir.nonce1})
	return ir
}

// checkIssued is the honest-run predicate on a credential the holder ended up with.
func (ir *issuanceRun) checkIssued(r *kernel.Run, fault string, cred *gabi.Credential) {
	det := map[string]any{"fault": fault}
	// A signature message from which the whole optional witness was removed yields a credential
	// without witness: gabi cannot know one was intended (the caller does), so only the rest of the
	// predicate applies under that one fault.
	witnessDropped := fault == "m3:delete@/nonrev" || fault == "m3:null@/nonrev"
	pk := ir.key.Pk
	if cred == nil || cred.Signature == nil {
		r.Violate("C06:nil-credential-without-error", det, "%s: ConstructCredential returned neither credential nor error", fault)
		return
	}
	// The holder of this world has no keyshare server: the signature must verify over exactly
	// (secret, attributes) without any extra factor in the equation.
	plain := &gabi.CLSignature{A: cred.Signature.A, E: cred.Signature.E, V: cred.Signature.V}
	if !plain.Verify(pk, cred.Attributes) {
		r.Violate("C06:credential-signature-invalid", det, "%s: credential signature does not verify over exactly (secret, attributes) (KeyshareP set: %v)", fault, cred.Signature.KeyshareP != nil)
	}
	if len(cred.Attributes) != len(ir.attrs)+1 || cred.Attributes[0].Cmp(ir.secret) != 0 {
		r.Violate("C06:credential-attributes-wrong", det, "%s: secret or attribute count wrong", fault)
		return
	}
	isBlind := map[int]bool{}
	for _, b := range ir.blind {
		isBlind[b] = true
	}
	for i, a := range ir.attrs {
		got := cred.Attributes[i+1]
		if !isBlind[i] {
			if got.Cmp(a) != 0 {
				r.Violate("C06:credential-attributes-wrong", det, "%s: attribute %d differs from what the issuer signed", fault, i+1)
			}
			continue
		}
		share := ir.mIssuer[i+1]
		if share == nil {
			r.Violate("C06:blind-share-missing", det, "%s: no issuer share for blind attribute %d", fault, i+1)
			continue
		}
		user := new(big.Int).Sub(got, share)
		if user.Sign() < 0 || user.BitLen() > int(pk.Params.Lm-1) {
			r.Violate("C06:blind-attribute-not-sum-of-shares", det, "%s: blind attribute %d minus issuer share is not a user share", fault, i+1)
		}
	}
	if ir.witness != nil && !(witnessDropped && cred.NonRevocationWitness == nil) {
		if cred.NonRevocationWitness == nil {
			r.Violate("C06:witness-missing", det, "%s: credential lacks the witness", fault)
			return
		}
		if err := cred.NonRevocationWitness.Verify(pk); err != nil {
			r.Violate("C06:witness-invalid", det, "%s: %v", fault, err)
		}
		if cred.NonRevocationWitness.U.Cmp(ir.witness.U) != 0 || cred.NonRevocationWitness.E.Cmp(ir.witness.E) != 0 {
			r.Violate("C06:witness-differs", det, "%s: witness differs from the issuer's", fault)
		}
		if _, err := cred.NonrevIndex(); err != nil {
			r.Violate("C06:witness-not-an-attribute", det, "%s: %v", fault, err)
		}
	}
}

// protected reports whether the element at the path is one whose alteration must prevent issuance.
func c06Protected(msg int, p kernel.Path) bool {
	s := p.String()
	switch msg {
	case 1:
		return true
	case 2:
		return strings.HasPrefix(s, "/n_2") || strings.HasPrefix(s, "/combinedProofs")
	case 3:
		if strings.HasPrefix(s, "/signature/KeyshareP") || strings.HasPrefix(s, "/nonrev/Updated") {
			return false
		}
		if s == "/nonrev" {
			return false // see checkIssued: dropping the optional witness as a whole
		}
		return strings.HasPrefix(s, "/proof") || strings.HasPrefix(s, "/signature") || strings.HasPrefix(s, "/nonrev") || strings.HasPrefix(s, "/m_issuer")
	}
	return false
}

func execC06(r *kernel.Run, s C06Spec) {
	if p := kernel.InBubble(r.T, func() { execC06Bubble(r, s) }); p != nil {
		panic(p)
	}
}

func execC06Bubble(r *kernel.Run, s C06Spec) {
	kernel.SeedLibrary(r.T, s.LibSeed)
	w := newWorld(r, s.ValSeed)
	key := kernel.GetKey(s.Key)
	a := newIssuanceRun(w, key, s.Classes, s.Blind, s.Witness)
	b := newIssuanceRun(w, key, s.Classes, s.Blind, s.Witness) // concurrent run of another holder: donor of replayed traffic
	r.Logf("key=%s attrs=%d blind=%v witness=%v", s.Key, len(s.Classes), s.Blind, s.Witness)

	// honest runs (fault-free class: strict)
	for name, ir := range map[string]*issuanceRun{"A": a} {
		var err error
		r.Eval(1)
		if ir.wire2, err = ir.holderStart(ir.wire1); err != nil {
			r.Violate("C06:honest-run-failed:holder-commit", nil, "run %s: %v", name, err)
			return
		}
		if ir.wire3, err = ir.issuerAnswer(ir.wire2); err != nil {
			r.Violate("C06:honest-run-failed:issuer", nil, "run %s: %v", name, err)
			return
		}
		cred, err := ir.holderFinish(ir.wire3)
		if err != nil {
			r.Violate("C06:honest-run-failed:holder-construct", nil, "run %s: %v", name, err)
			return
		}
		ir.checkIssued(r, "none", cred)
	}
	{
		var err error
		if b.wire2, err = b.holderStart(b.wire1); err != nil {
			panic(err)
		}
		if b.wire3, err = b.issuerAnswer(b.wire2); err != nil {
			panic(err)
		}
	}
	r.Distinct(fmt.Sprintf("classes=%v blind=%v witness=%v bits=%d", s.Classes, s.Blind, s.Witness, key.Bits))
	honestIssuerShares := a.mIssuer

	// run the rest of the protocol from a (possibly altered) message and judge the outcome
	type outcome struct {
		cred  *gabi.Credential
		stage string
		err   error
	}
	finish := func(msg int, wire []byte) (o outcome) {
		a.mIssuer = honestIssuerShares
		var frame string
		pmsg, frame := guardFrame(func() {
			w2, w3 := a.wire2, a.wire3
			var err error
			if msg == 1 {
				// the holder of run A restarts the session with what it received
				saved := a.builder
				defer func() { a.builder = saved }()
				if w2, err = a.holderStart(wire); err != nil {
					o = outcome{stage: "holder-commit", err: err}
					return
				}
				msg, wire = 2, w2
				if w3, err = a.issuerAnswer(wire); err != nil {
					o = outcome{stage: "issuer", err: err}
					return
				}
				cred, err := a.holderFinish(w3)
				o = outcome{cred: cred, stage: "holder-construct", err: err}
				return
			}
			if msg == 2 {
				if w3, err = a.issuerAnswer(wire); err != nil {
					o = outcome{stage: "issuer", err: err}
					return
				}
				wire = w3
			}
			cred, err := a.holderFinish(wire)
			o = outcome{cred: cred, stage: "holder-construct", err: err}
		})
		if pmsg != "" {
			o = outcome{stage: "panic:" + frame, err: fmt.Errorf("panic: %s", pmsg)}
		}
		return
	}
	semantic := func(msg int, orig, mut []byte) bool {
		// does the receiver's decoder see a different message?
		dec := func(b []byte) string {
			switch msg {
			case 1:
				var m msg1
				if json.Unmarshal(b, &m) != nil {
					return "undecodable"
				}
				return string(mustJSON(m))
			case 2:
				var m gabi.IssueCommitmentMessage
				if json.Unmarshal(b, &m) != nil {
					return "undecodable"
				}
				out, err := json.Marshal(m)
				if err != nil {
					return "unencodable"
				}
				return string(out)
			default:
				var m gabi.IssueSignatureMessage
				if json.Unmarshal(b, &m) != nil {
					return "undecodable"
				}
				// issuer shares at indices that are not random blind are never looked at: not an alteration of a share
				for k := range m.MIssuer {
					used := false
					for _, bi := range a.blind {
						used = used || bi+1 == k
					}
					if !used {
						delete(m.MIssuer, k)
					}
				}
				if len(m.MIssuer) == 0 {
					m.MIssuer = nil
				}
				out, err := json.Marshal(m)
				if err != nil {
					return "unencodable"
				}
				return string(out)
			}
		}
		return dec(orig) != dec(mut)
	}
	judge := func(id, kind string, msg int, path kernel.Path, orig, wire []byte) {
		if !wanted(s.OnlyFault, id) {
			return
		}
		r.Eval(1)
		r.Fault(kind)
		o := finish(msg, wire)
		det := map[string]any{"fault": id, "msg": msg, "path": path.Generic()}
		if strings.HasPrefix(o.stage, "panic:") {
			r.Violate("C06:"+o.stage, det, "%s: receiver panics instead of rejecting: %v", id, o.err)
			return
		}
		if o.err != nil || o.cred == nil {
			if o.err == nil {
				r.Violate("C06:nil-credential-without-error", det, "%s", id)
			}
			r.Probe("rejected-at-" + o.stage)
			return
		}
		r.Probe("credential-produced-under-fault")
		a.checkIssued(r, id, o.cred)
		if c06Protected(msg, path) && semantic(msg, orig, wire) {
			r.Violate("C06:credential-from-tampered:msg"+fmt.Sprint(msg)+path.Generic(), det, "%s: a credential was produced although %s of message %d was altered", id, path.Generic(), msg)
		}
	}

	wires := map[int][]byte{1: a.wire1, 2: a.wire2, 3: a.wire3}
	donors := map[int][]byte{1: b.wire1, 2: b.wire2, 3: b.wire3}
	nR := fmt.Sprint(len(key.Pk.R))
	for msg := 1; msg <= 3; msg++ {
		tree := kernel.MustDecode(wires[msg])
		opts := kernel.MutOpts{Values: true, Structural: true, Rekeys: []string{"0", "1", fmt.Sprint(len(s.Classes)), nR}, Donor: kernel.MustDecode(donors[msg])}
		for _, m := range kernel.Mutations(tree, opts) {
			kind := "tamper-field"
			if m.Kind == "exchange" {
				kind = "splice-other-run"
			}
			judge(fmt.Sprintf("m%d:%s", msg, m.ID), kind, msg, m.Path, wires[msg], m.Apply(tree))
		}
		// whole-message replay from the other run
		judge(fmt.Sprintf("m%d:replay-other-run", msg), "replay", msg, kernel.Path{}, wires[msg], donors[msg])
	}
	// Byzantine issuer (it has the private key): message 3 deviates in two coordinated places
	byz := func(id string, mk func(U *big.Int) (*gabi.IssueSignatureMessage, error)) {
		if !wanted(s.OnlyFault, id) {
			return
		}
		r.Eval(1)
		r.Fault("byzantine-issuer")
		var cm gabi.IssueCommitmentMessage
		mustUnmarshal(a.wire2, &cm)
		pu, _ := cm.Proofs.GetFirstProofU()
		sm, err := mk(pu.U)
		if err != nil || sm == nil {
			r.Probe("byzantine-issuer-could-not-build")
			return
		}
		a.mIssuer = sm.MIssuer
		w3, err := json.Marshal(sm)
		if err != nil {
			return
		}
		var cred *gabi.Credential
		var ferr error
		if p, fr := guardFrame(func() { cred, ferr = a.holderFinish(w3) }); p != "" {
			r.Violate("C06:panic:"+fr, map[string]any{"fault": id}, "%s: holder panics: %s", id, p)
			return
		}
		if ferr == nil && cred != nil {
			r.Probe("credential-produced-under-fault")
			a.checkIssued(r, id, cred)
		} else {
			r.Probe("rejected-at-holder-construct")
		}
		a.mIssuer = honestIssuerShares
	}
	{
		pk := key.Pk
		issuer := gabi.NewIssuer(key.Sk, pk, a.context)
		var cm gabi.IssueCommitmentMessage
		mustUnmarshal(a.wire2, &cm)
		var wit *revocation.Witness
		if a.witness != nil {
			cp := *a.witness
			wit = &cp
		}
		for bi, base := range []*big.Int{pk.R[min(1, len(pk.R)-1)], pk.S, pk.R[0]} {
			K := new(big.Int).Exp(base, big.NewInt(int64(5+bi)), pk.N)
			kk := K
			// signs U*K instead of U and declares K as "keyshare contribution"
			byz(fmt.Sprintf("byzantine:sign-U*K-with-KeyshareP:%d", bi), func(U *big.Int) (*gabi.IssueSignatureMessage, error) {
				UK := new(big.Int).Mul(U, kk)
				UK.Mod(UK, pk.N)
				sm, err := issuer.IssueSignature(UK, a.attrs, wit, cm.Nonce2, a.blind)
				if err == nil {
					sm.Signature.KeyshareP = kk
				}
				return sm, err
			})
			// honest signature, only the declared contribution set
			byz(fmt.Sprintf("byzantine:KeyshareP-only:%d", bi), func(U *big.Int) (*gabi.IssueSignatureMessage, error) {
				sm, err := issuer.IssueSignature(U, a.attrs, wit, cm.Nonce2, a.blind)
				if err == nil {
					sm.Signature.KeyshareP = kk
				}
				return sm, err
			})
		}
		// signs other attribute values than it was asked to (the holder passes its own list to ConstructCredential)
		if len(a.attrs) > 0 && a.attrs[0] != nil {
			byz("byzantine:other-attribute", func(U *big.Int) (*gabi.IssueSignatureMessage, error) {
				other := append([]*big.Int{}, a.attrs...)
				other[0] = new(big.Int).Add(other[0], big.NewInt(1))
				return issuer.IssueSignature(U, other, wit, cm.Nonce2, a.blind)
			})
		}
	}
	// replay message 3 of an earlier session of the same holder and issuer (fresh builder: holder restarted between commit and construct)
	if wanted(s.OnlyFault, "crash-restart-holder") {
		r.Fault("crash-restart")
		r.Eval(1)
		saved := a.builder
		if _, err := a.holderStart(a.wire1); err != nil {
			panic(err)
		}
		var cred *gabi.Credential
		var err error
		if p := guard(func() { cred, err = a.holderFinish(a.wire3) }); p != "" {
			r.Violate("C06:panic:holder-after-restart", nil, "%s", p)
		} else if err == nil && cred != nil {
			r.Violate("C06:credential-from-replayed-signature-message", map[string]any{"fault": "crash-restart-holder"}, "a restarted holder (fresh builder) accepted the signature message of its earlier session")
		}
		a.builder = saved
	}
	// message 2 lost: the issuer starts over with a fresh nonce1 and the holder answers again from the
	// SAME builder (it holds the commitment and nonce2); the retried run must complete honestly
	if wanted(s.OnlyFault, "drop-m2-retry-same-builder") {
		r.Fault("drop")
		r.Eval(1)
		savedNonce := a.nonce1
		a.nonce1 = randBits(w.hr, 80)
		det := map[string]any{"fault": "drop-m2-retry-same-builder"}
		var cred *gabi.Credential
		var stage string
		var err error
		if p, fr := guardFrame(func() {
			var cm *gabi.IssueCommitmentMessage
			stage = "holder-commit"
			if cm, err = a.builder.CommitToSecretAndProve(a.nonce1); err != nil {
				return
			}
			stage = "issuer"
			var w3 []byte
			if w3, err = a.issuerAnswer(mustJSON(cm)); err != nil {
				return
			}
			stage = "holder-construct"
			cred, err = a.holderFinish(w3)
		}); p != "" {
			r.Violate("C06:panic:"+fr, det, "retry after a lost commitment message panics: %s", p)
		} else if err != nil {
			r.Violate("C06:honest-retry-failed:"+stage, det, "after a lost commitment message the holder answered a fresh nonce from the same builder; the retried honest run failed at %s: %v", stage, err)
		} else {
			a.checkIssued(r, "drop-m2-retry-same-builder", cred)
		}
		a.nonce1 = savedNonce
		a.mIssuer = honestIssuerShares
	}
	// duplicate delivery of message 3: idempotent, same credential
	if wanted(s.OnlyFault, "dup-m3") {
		r.Fault("dup")
		c1, e1 := a.holderFinish(a.wire3)
		c2, e2 := a.holderFinish(a.wire3)
		if e1 != nil || e2 != nil || string(mustJSON(c1)) != string(mustJSON(c2)) {
			r.Violate("C06:duplicate-delivery-changes-outcome", map[string]any{"fault": "dup-m3"}, "errors %v %v", e1, e2)
		}
	}
	r.Sample(s)
}

func TestC06(t *testing.T) {
	RunProp(t, Prop[C06Spec]{ID: "C06", Draw: drawC06, Exec: execC06,
		Minimise: func(s C06Spec, v kernel.Violation) C06Spec {
			if f, ok := v.Details["fault"].(string); ok && f != "none" {
				s.OnlyFault = []string{f}
			}
			return s
		}})
}
