// genlowprimes searches safe primes of the given length whose second-highest bit is 0, so that the
// product of two of them is one bit shorter than the sum of their lengths (the library's own
// generator always sets the two top bits). Used once to make the constants of C18's
// "short-product" key document.
package main

import (
	"crypto/rand"
	"flag"
	"fmt"
	"runtime"

	"github.com/privacybydesign/gabi/big"
	"github.com/privacybydesign/gabi/safeprime"
)

func main() {
	bits := flag.Int("bits", 512, "prime length")
	n := flag.Int("n", 2, "how many")
	flag.Parse()
	out := make(chan *big.Int)
	for w := 0; w < runtime.NumCPU(); w++ {
		go func() {
			buf := make([]byte, *bits/8)
			for {
				if _, err := rand.Read(buf); err != nil {
					panic(err)
				}
				buf[0] = 0x80 | (buf[0] & 0x3f) // top bits 10
				buf[len(buf)-1] |= 3            // p = 3 mod 4
				p := new(big.Int).SetBytes(buf)
				if safeprime.ProbablySafePrime(p, 20) {
					out <- p
				}
			}
		}()
	}
	for i := 0; i < *n; i++ {
		fmt.Println((<-out).String())
	}
}
