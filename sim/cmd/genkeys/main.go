// genkeys generates issuer key pairs with gabi's own generator and stores them
// in the harness's own JSON format (toy sizes cannot be read back from XML by gabi).
package main

import (
	"encoding/json"
	"flag"
	"fmt"
	"os"
	"time"

	"github.com/privacybydesign/gabi/gabikeys"
)

type StoredKey struct {
	Name    string   `json:"name"`
	Bits    int      `json:"bits"`
	Lm      uint     `json:"lm"`
	Lstatzk uint     `json:"lstatzk"`
	P       string   `json:"p"`
	Q       string   `json:"q"`
	Z       string   `json:"z"`
	S       string   `json:"s"`
	G       string   `json:"g"`
	H       string   `json:"h"`
	R       []string `json:"r"`
	ECDSA   string   `json:"ecdsa_priv"`
	ECDSAPk string   `json:"ecdsa_pub"`
	Counter uint     `json:"counter"`
}

func main() {
	bits := flag.Int("bits", 256, "modulus length")
	n := flag.Int("attrs", 8, "number of bases")
	name := flag.String("name", "", "key name")
	counter := flag.Uint("counter", 0, "key counter")
	out := flag.String("out", "", "output file")
	lstatzk := flag.Uint("lstatzk", 80, "Lstatzk for non-default modulus lengths")
	lm := flag.Uint("lm", 256, "Lm for non-default modulus lengths")
	flag.Parse()

	var params *gabikeys.SystemParameters
	if p, ok := gabikeys.DefaultSystemParameters[*bits]; ok {
		params = p
	} else {
		base := gabikeys.BaseParameters{LePrime: 120, Lh: 256, Lm: *lm, Ln: uint(*bits), Lstatzk: *lstatzk}
		params = &gabikeys.SystemParameters{BaseParameters: base, DerivedParameters: gabikeys.MakeDerivedParameters(base)}
	}
	sk, pk, err := gabikeys.GenerateKeyPair(params, *n, *counter, time.Unix(4000000000, 0))
	if err != nil {
		panic(err)
	}
	k := StoredKey{Name: *name, Bits: *bits, Lm: params.Lm, Lstatzk: params.Lstatzk,
		P: sk.P.String(), Q: sk.Q.String(), Z: pk.Z.String(), S: pk.S.String(), G: pk.G.String(), H: pk.H.String(),
		ECDSA: sk.ECDSAString, ECDSAPk: pk.ECDSAString, Counter: *counter}
	for _, r := range pk.R {
		k.R = append(k.R, r.String())
	}
	bts, _ := json.MarshalIndent(k, "", " ")
	if err := os.WriteFile(*out, bts, 0644); err != nil {
		panic(err)
	}
	fmt.Println("wrote", *out)
}
