// Package kernel is the simulation kernel shared by all property checks:
// seeded library randomness, keys, the run/evidence recorder, the message
// tamper catalogue and the party shells of the protocol world.
package kernel

import (
	"encoding/json"
	"fmt"
	"os"
	"path/filepath"
	"sort"
	"sync"
	"time"

	"github.com/privacybydesign/gabi/big"
	"github.com/privacybydesign/gabi/gabikeys"
)

// StoredKey is the harness's own on-disk key format (gabi cannot read toy-size
// keys back from XML: NewPublicKeyFromBytes refuses unknown modulus lengths).
type StoredKey struct {
	Name    string   `json:"name"`
	Bits    int      `json:"bits"`
	Lm      uint     `json:"lm"`
	Lstatzk uint     `json:"lstatzk"`
	P       string   `json:"p"`
	Q       string   `json:"q"`
	Z       string   `json:"z"`
	S       string   `json:"s"`
	G       string   `json:"g"`
	H       string   `json:"h"`
	R       []string `json:"r"`
	ECDSA   string   `json:"ecdsa_priv"`
	ECDSAPk string   `json:"ecdsa_pub"`
	Counter uint     `json:"counter"`
}

// Key is an issuer key pair as the world uses it.
type Key struct {
	Name string
	Bits int
	Z128 bool // toy modulus with Lstatzk=128 (needed where responses of 2048-bit-class length occur)
	Wide bool // message length Lm differs from the hash length Lh (as in the 4096-bit parameters)
	Pk   *gabikeys.PublicKey
	Sk   *gabikeys.PrivateKey
}

func mustBig(s string) *big.Int {
	i, ok := new(big.Int).SetString(s, 10)
	if !ok {
		panic("bad integer in key file")
	}
	return i
}

// ToyParams returns system parameters for a modulus length gabi has no defaults for.
func ToyParams(bits int, lm, lstatzk uint) *gabikeys.SystemParameters {
	if p, ok := gabikeys.DefaultSystemParameters[bits]; ok {
		return p
	}
	base := gabikeys.BaseParameters{LePrime: 120, Lh: 256, Lm: lm, Ln: uint(bits), Lstatzk: lstatzk}
	return &gabikeys.SystemParameters{BaseParameters: base, DerivedParameters: gabikeys.MakeDerivedParameters(base)}
}

func (k *StoredKey) Build() (*Key, error) {
	exp := time.Unix(4000000000, 0)
	sk, err := gabikeys.NewPrivateKey(mustBig(k.P), mustBig(k.Q), k.ECDSA, k.Counter, exp)
	if err != nil {
		return nil, err
	}
	R := make([]*big.Int, len(k.R))
	for i := range k.R {
		R[i] = mustBig(k.R[i])
	}
	pk, err := gabikeys.NewPublicKey(new(big.Int).Set(sk.N), mustBig(k.Z), mustBig(k.S), mustBig(k.G), mustBig(k.H), R, k.ECDSAPk, k.Counter, exp)
	if err != nil {
		return nil, err
	}
	pk.Params = ToyParams(k.Bits, k.Lm, k.Lstatzk)
	pk.Issuer = k.Name
	return &Key{Name: k.Name, Bits: k.Bits, Pk: pk, Sk: sk, Z128: k.Bits < 1024 && k.Lstatzk == 128, Wide: pk.Params.Lm != pk.Params.Lh}, nil
}

var (
	keysOnce sync.Once
	keys     map[string]*Key
	keyNames []string
	keysErr  error
)

// KeyDir is where the committed keys live; set by the test main from VERIF_KEYS
// or relative to the package directory.
var KeyDir = "../testdata/keys"

func loadKeys() {
	keys = map[string]*Key{}
	files, err := filepath.Glob(filepath.Join(KeyDir, "*.json"))
	if err != nil || len(files) == 0 {
		keysErr = fmt.Errorf("no keys found in %s (%v)", KeyDir, err)
		return
	}
	sort.Strings(files)
	for _, f := range files {
		bts, err := os.ReadFile(f)
		if err != nil {
			keysErr = err
			return
		}
		var sk StoredKey
		if err := json.Unmarshal(bts, &sk); err != nil {
			keysErr = fmt.Errorf("%s: %v", f, err)
			return
		}
		k, err := sk.Build()
		if err != nil {
			keysErr = fmt.Errorf("%s: %v", f, err)
			return
		}
		keys[k.Name] = k
		keyNames = append(keyNames, k.Name)
	}
}

// GetKey returns the named committed key. Keys are shared, read-only objects
// (gabi treats public keys as shareable); checks never mutate them.
func GetKey(name string) *Key {
	keysOnce.Do(loadKeys)
	if keysErr != nil {
		panic(keysErr)
	}
	k := keys[name]
	if k == nil {
		panic("unknown key " + name)
	}
	return k
}

// KeyNames lists key names of the given modulus length (0 = all), sorted.
func KeyNames(bits int) []string {
	keysOnce.Do(loadKeys)
	if keysErr != nil {
		panic(keysErr)
	}
	var out []string
	for _, n := range keyNames {
		if keys[n].Z128 || keys[n].Wide {
			continue
		}
		if bits == 0 || keys[n].Bits == bits {
			out = append(out, n)
		}
	}
	return out
}

// KeyNamesZ128 lists the toy keys with Lstatzk=128 parameters.
func KeyNamesZ128() []string {
	keysOnce.Do(loadKeys)
	if keysErr != nil {
		panic(keysErr)
	}
	var out []string
	for _, n := range keyNames {
		if keys[n].Z128 {
			out = append(out, n)
		}
	}
	return out
}

// KeyNamesWide lists the keys whose message length differs from the hash length (Lm != Lh); maxBits
// bounds the modulus length (0 = no bound).
func KeyNamesWide(maxBits int) []string {
	keysOnce.Do(loadKeys)
	if keysErr != nil {
		panic(keysErr)
	}
	var out []string
	for _, n := range keyNames {
		if keys[n].Wide && (maxBits == 0 || keys[n].Bits <= maxBits) {
			out = append(out, n)
		}
	}
	return out
}
