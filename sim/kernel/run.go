package kernel

import (
	"crypto/sha256"
	"encoding/binary"
	"encoding/hex"
	"encoding/json"
	"fmt"
	"os"
	"sort"
	"strings"
	"testing"
	"testing/cryptotest"

	"github.com/privacybydesign/gabi"
)

// Violation is one observed breach of a property.
type Violation struct {
	Property string          `json:"property"`
	Class    string          `json:"class"`   // short stable string: what was wrong, never values
	Details  map[string]any  `json:"details"` // what the known-findings matcher looks at
	Msg      string          `json:"msg"`
	Seed     uint64          `json:"seed"`
	Spec     json.RawMessage `json:"spec,omitempty"` // minimised replayable spec
	LogHash  string          `json:"log_hash,omitempty"`
	Replay   string          `json:"replay,omitempty"`
}

// Run records what one simulated execution did.
type Run struct {
	T        *testing.T
	Property string
	Log      []string
	Viol     []Violation
	st       *Stats
	events   int
}

// Stats accumulates evidence over the runs of one process (one shard).
type Stats struct {
	Property    string            `json:"property"`
	Runs        int               `json:"runs"`
	Evaluations int               `json:"evaluations"`
	Events      int               `json:"events"`
	SimTimeS    float64           `json:"sim_time_s"`
	Faults      map[string]int    `json:"faults"`
	Probes      map[string]int    `json:"probes"`
	Distinct    map[string]bool   `json:"-"`
	DistinctL   []string          `json:"distinct"`
	Samples     []any             `json:"samples"`
	RunHashes   []string          `json:"run_hashes"`
	Violations  []Violation       `json:"violations"`
	KnownSeen   map[string]int    `json:"known_seen"`
	KnownSample map[string]string `json:"known_sample"`
	Notes       []string          `json:"notes"`
}

func NewStats(property string) *Stats {
	return &Stats{Property: property, Faults: map[string]int{}, Probes: map[string]int{}, Distinct: map[string]bool{},
		KnownSeen: map[string]int{}, KnownSample: map[string]string{}}
}

func NewRun(t *testing.T, property string, st *Stats) *Run {
	st.Runs++
	return &Run{T: t, Property: property, st: st}
}

// Logf appends to the deterministic event log. It never draws randomness and
// never reads a clock.
func (r *Run) Logf(format string, a ...any) {
	r.events++
	r.Log = append(r.Log, fmt.Sprintf(format, a...))
}

func (r *Run) Eval(n int)        { r.st.Evaluations += n }
func (r *Run) Fault(kind string) { r.st.Faults[kind]++ }
func (r *Run) Probe(name string) { r.st.Probes[name]++ }
func (r *Run) SimTime(s float64) { r.st.SimTimeS += s }
func (r *Run) Stats() *Stats     { return r.st }
func (r *Run) Note(s string)     { r.st.Notes = append(r.st.Notes, s) }

// Distinct records a non-trivial abstract case; the key is hashed.
func (r *Run) Distinct(key string) {
	h := sha256.Sum256([]byte(key))
	r.st.Distinct[hex.EncodeToString(h[:8])] = true
}

// Sample keeps up to a few written-out cases for the evidence file.
func (r *Run) Sample(v any) {
	if len(r.st.Samples) < 6 {
		r.st.Samples = append(r.st.Samples, v)
	}
}

// Violate records a violation unless it matches a listed known finding.
func (r *Run) Violate(class string, details map[string]any, format string, a ...any) {
	v := Violation{Property: r.Property, Class: class, Details: details, Msg: fmt.Sprintf(format, a...)}
	if v.Details == nil {
		v.Details = map[string]any{}
	}
	if kf := MatchKnown(&v); kf != "" {
		r.st.KnownSeen[kf]++
		if _, ok := r.st.KnownSample[kf]; !ok {
			r.st.KnownSample[kf] = v.Msg
		}
		r.Logf("known-finding %s", kf)
		return
	}
	r.Logf("VIOLATION %s", class)
	r.Viol = append(r.Viol, v)
}

// LogHash is the determinism fingerprint of the run.
func (r *Run) LogHash() string {
	h := sha256.New()
	for _, l := range r.Log {
		h.Write([]byte(l))
		h.Write([]byte{'\n'})
	}
	return hex.EncodeToString(h.Sum(nil)[:12])
}

// Finish folds the run into the shard statistics.
func (r *Run) Finish() {
	r.st.Events += r.events
	if len(r.st.RunHashes) < 4096 {
		r.st.RunHashes = append(r.st.RunHashes, r.LogHash())
	}
}

func (s *Stats) Write(path string) error {
	s.DistinctL = s.DistinctL[:0]
	for k := range s.Distinct {
		s.DistinctL = append(s.DistinctL, k)
	}
	sort.Strings(s.DistinctL)
	bts, err := json.Marshal(s)
	if err != nil {
		return err
	}
	return os.WriteFile(path, bts, 0644)
}

// SeedLibrary pins every source of library randomness for one run: crypto/rand
// (gabi's RandomBigInt, prime search, ECDSA) through testing/cryptotest, and the
// process-wide AES-CTR generator through the verif-tagged reseed hook.
func SeedLibrary(t *testing.T, libSeed uint64) {
	cryptotest.SetGlobalRandom(t, libSeed)
	var s [32]byte
	binary.LittleEndian.PutUint64(s[:8], libSeed)
	copy(s[8:], "gabi-verif-cprng")
	gabi.VerifReseedFastRandom(s)
}

// ---------------------------------------------------------------------------
// known findings

type KnownFinding struct {
	Property string         `json:"property"`
	Class    string         `json:"class"`
	Match    map[string]any `json:"match"`
	What     string         `json:"what"`
	Fixed    string         `json:"fixed,omitempty"` // "fixed:" entries suppress nothing
}

var known []KnownFinding

// LoadKnown reads the committed known-findings file (never written at run time).
func LoadKnown(path string) error {
	known = nil
	if path == "" {
		return nil
	}
	bts, err := os.ReadFile(path)
	if err != nil {
		return err
	}
	for _, line := range strings.Split(string(bts), "\n") {
		line = strings.TrimSpace(line)
		if line == "" || strings.HasPrefix(line, "#") || strings.HasPrefix(line, "fixed:") {
			continue
		}
		var k KnownFinding
		if err := json.Unmarshal([]byte(line), &k); err != nil {
			return fmt.Errorf("known findings: %v in %q", err, line)
		}
		if k.Fixed != "" {
			continue
		}
		known = append(known, k)
	}
	return nil
}

// MatchKnown returns the identifying string of the listed finding v is an instance of, or "".
func MatchKnown(v *Violation) string {
	for _, k := range known {
		if k.Property != v.Property || k.Class != v.Class {
			continue
		}
		ok := true
		for mk, mv := range k.Match {
			if fmt.Sprint(v.Details[mk]) != fmt.Sprint(mv) {
				ok = false
				break
			}
		}
		if ok {
			return k.Property + " " + k.Class + ": " + k.What
		}
	}
	return ""
}
