package kernel

import (
	"bytes"
	"encoding/base64"
	"encoding/json"
	"fmt"
	"math/big"
	"sort"
	"strconv"
	"strings"
)

// The transport's view of a message: a generic JSON tree decoded by the
// harness itself (never by gabi), in which faults are addressed by *path*, never
// by byte offset, so that a fault means the same thing in every run.

// Decode parses JSON into a generic tree (numbers kept as json.Number).
func Decode(b []byte) (any, error) {
	d := json.NewDecoder(bytes.NewReader(b))
	d.UseNumber()
	var v any
	if err := d.Decode(&v); err != nil {
		return nil, err
	}
	return v, nil
}

func MustDecode(b []byte) any {
	v, err := Decode(b)
	if err != nil {
		panic(err)
	}
	return v
}

// Encode renders a tree (map keys sorted: JSON object order is irrelevant to receivers).
func Encode(v any) []byte {
	b, err := json.Marshal(v)
	if err != nil {
		panic(err)
	}
	return b
}

// Clone deep-copies a tree.
func Clone(v any) any {
	switch x := v.(type) {
	case map[string]any:
		m := make(map[string]any, len(x))
		for k, e := range x {
			m[k] = Clone(e)
		}
		return m
	case []any:
		a := make([]any, len(x))
		for i, e := range x {
			a[i] = Clone(e)
		}
		return a
	default:
		return v
	}
}

// Path addresses a node: object keys and decimal array indices.
type Path []string

func (p Path) String() string { return "/" + strings.Join(p, "/") }

// Generic renders a path with array indices and numeric map keys replaced by
// "#", so that violation classes do not depend on values.
func (p Path) Generic() string {
	out := make([]string, len(p))
	for i, s := range p {
		if _, err := strconv.Atoi(s); err == nil {
			out[i] = "#"
		} else {
			out[i] = s
		}
	}
	return "/" + strings.Join(out, "/")
}

func sortedKeys(m map[string]any) []string {
	ks := make([]string, 0, len(m))
	for k := range m {
		ks = append(ks, k)
	}
	sort.Strings(ks)
	return ks
}

// Walk visits every node in deterministic order.
func Walk(v any, f func(p Path, node any)) { walk(v, nil, f) }

func walk(v any, p Path, f func(Path, any)) {
	f(append(Path(nil), p...), v)
	switch x := v.(type) {
	case map[string]any:
		for _, k := range sortedKeys(x) {
			walk(x[k], append(p, k), f)
		}
	case []any:
		for i, e := range x {
			walk(e, append(p, strconv.Itoa(i)), f)
		}
	}
}

// Get returns the node at p.
func Get(v any, p Path) (any, bool) {
	for _, s := range p {
		switch x := v.(type) {
		case map[string]any:
			e, ok := x[s]
			if !ok {
				return nil, false
			}
			v = e
		case []any:
			i, err := strconv.Atoi(s)
			if err != nil || i < 0 || i >= len(x) {
				return nil, false
			}
			v = x[i]
		default:
			return nil, false
		}
	}
	return v, true
}

// Set replaces the node at p (root replacement returns the new root).
func Set(root any, p Path, nv any) any {
	if len(p) == 0 {
		return nv
	}
	parent, ok := Get(root, p[:len(p)-1])
	if !ok {
		return root
	}
	last := p[len(p)-1]
	switch x := parent.(type) {
	case map[string]any:
		x[last] = nv
	case []any:
		i, err := strconv.Atoi(last)
		if err == nil && i >= 0 && i < len(x) {
			x[i] = nv
		}
	}
	return root
}

// Delete removes the node at p (array elements are spliced out).
func Delete(root any, p Path) any {
	if len(p) == 0 {
		return nil
	}
	parent, ok := Get(root, p[:len(p)-1])
	if !ok {
		return root
	}
	last := p[len(p)-1]
	switch x := parent.(type) {
	case map[string]any:
		delete(x, last)
	case []any:
		i, err := strconv.Atoi(last)
		if err == nil && i >= 0 && i < len(x) {
			nx := append(append([]any{}, x[:i]...), x[i+1:]...)
			root = Set(root, p[:len(p)-1], nx)
		}
	}
	return root
}

// B64Int decodes a base64 big-endian integer leaf as gabi's big.Int encodes it.
func B64Int(s string) (*big.Int, bool) {
	b, err := base64.StdEncoding.DecodeString(s)
	if err != nil {
		return nil, false
	}
	return new(big.Int).SetBytes(b), true
}

// IntB64 encodes a non-negative integer the way gabi's big.Int does.
func IntB64(i *big.Int) string {
	return base64.StdEncoding.EncodeToString(i.Bytes())
}

// Mutation is one path-addressed alteration of a message tree.
type Mutation struct {
	ID   string // stable identifier: kind@path
	Kind string
	Path Path
	Do   func(root any) any
}

func isIntKeyMap(m map[string]any) bool {
	if len(m) == 0 {
		return false
	}
	for k := range m {
		if _, err := strconv.Atoi(k); err != nil {
			return false
		}
	}
	return true
}

// MutOpts tunes the catalogue.
type MutOpts struct {
	Rekeys     []string // replacement keys tried on integer-keyed maps
	Structural bool     // include delete/null/duplicate/swap/truncate
	Values     bool     // include value alterations of leaves
	Donor      any      // optional second tree: exchange the subtree at the same path
}

// Mutations enumerates the tamper-field catalogue over a tree, in deterministic order.
func Mutations(root any, o MutOpts) []Mutation {
	var out []Mutation
	add := func(kind string, p Path, do func(any) any) {
		out = append(out, Mutation{ID: kind + "@" + p.String(), Kind: kind, Path: p, Do: do})
	}
	Walk(root, func(p Path, node any) {
		if len(p) == 0 {
			return
		}
		pp := p
		if o.Structural {
			add("delete", pp, func(r any) any { return Delete(r, pp) })
			if node != nil {
				add("null", pp, func(r any) any { return Set(r, pp, nil) })
			}
		}
		if o.Donor != nil {
			if dn, ok := Get(o.Donor, pp); ok && string(Encode(dn)) != string(Encode(node)) {
				switch node.(type) {
				case map[string]any, []any:
					if len(pp) > 1 { // whole-subtree exchange below the list element level
						add("exchange", pp, func(r any) any { return Set(r, pp, Clone(dn)) })
					}
				default:
					add("exchange", pp, func(r any) any { return Set(r, pp, Clone(dn)) })
				}
			}
		}
		switch x := node.(type) {
		case string:
			if !o.Values {
				return
			}
			if v, ok := B64Int(x); ok {
				bl := v.BitLen()
				add("plus1", pp, func(r any) any { return Set(r, pp, IntB64(new(big.Int).Add(v, big.NewInt(1)))) })
				if v.Sign() > 0 {
					add("minus1", pp, func(r any) any { return Set(r, pp, IntB64(new(big.Int).Sub(v, big.NewInt(1)))) })
				}
				add("zero", pp, func(r any) any { return Set(r, pp, "") })
				seenBit := map[int]bool{}
				for j, bit := range []int{1, bl / 2, bl - 1, bl + 7} {
					if bit < 0 || seenBit[bit] {
						continue
					}
					seenBit[bit] = true
					b := bit
					add(fmt.Sprintf("flipbit%d", j), pp, func(r any) any {
						nv := new(big.Int).Set(v)
						nv.SetBit(nv, b, nv.Bit(b)^1)
						return Set(r, pp, IntB64(nv))
					})
				}
				add("double", pp, func(r any) any { return Set(r, pp, IntB64(new(big.Int).Lsh(v, 1))) })
			} else {
				add("garble", pp, func(r any) any { return Set(r, pp, x+"A") })
				add("empty", pp, func(r any) any { return Set(r, pp, "") })
			}
		case json.Number:
			if !o.Values {
				return
			}
			n, err := x.Int64()
			if err != nil {
				return
			}
			labels := []string{"+1", "-1", "0", "neg", "2^31", "2^62"}
			for j, nv := range []int64{n + 1, n - 1, 0, -n, 1 << 31, 1 << 62} {
				if nv == n {
					continue
				}
				v := nv
				add("num"+labels[j], pp, func(r any) any { return Set(r, pp, json.Number(strconv.FormatInt(v, 10))) })
			}
		case bool:
			if o.Values {
				add("flipbool", pp, func(r any) any { return Set(r, pp, !x) })
			}
		case map[string]any:
			if o.Structural {
				// sibling arrays resized together: length checks that compare siblings with each other
				// instead of with the expected structure are only visible to coordinated changes
				var arrs []string
				for _, k := range sortedKeys(x) {
					if a, ok := x[k].([]any); ok && len(a) >= 1 {
						arrs = append(arrs, k)
					}
				}
				resize := func(names []string, grow bool) func(any) any {
					return func(r any) any {
						m, _ := Get(r, pp)
						mm, ok := m.(map[string]any)
						if !ok {
							return r
						}
						for _, k := range names {
							a, ok := mm[k].([]any)
							if !ok || len(a) == 0 {
								continue
							}
							if grow {
								mm[k] = append(append([]any{}, a...), Clone(a[len(a)-1]))
							} else {
								mm[k] = append([]any{}, a[:len(a)-1]...)
							}
						}
						return r
					}
				}
				if len(arrs) >= 2 && len(arrs) <= 6 {
					for i := 0; i < len(arrs); i++ {
						for j := i + 1; j < len(arrs); j++ {
							pair := []string{arrs[i], arrs[j]}
							add("truncpair:"+arrs[i]+"+"+arrs[j], pp, resize(pair, false))
							add("growpair:"+arrs[i]+"+"+arrs[j], pp, resize(pair, true))
						}
					}
					if len(arrs) >= 3 {
						add("truncall", pp, resize(arrs, false))
						add("growall", pp, resize(arrs, true))
					}
				}
			}
			if isIntKeyMap(x) {
				ks := sortedKeys(x)
				for _, k := range ks {
					kk := k
					for _, nk := range o.Rekeys {
						if _, exists := x[nk]; exists || nk == kk {
							// re-keying onto an existing key replaces that entry: covered by exchange/swap
							if nk == kk {
								continue
							}
						}
						nkk := nk
						add("rekey:"+nkk, append(append(Path{}, pp...), kk), func(r any) any {
							m, ok := Get(r, pp)
							if !ok {
								return r
							}
							mm, ok := m.(map[string]any)
							if !ok {
								return r
							}
							v := mm[kk]
							delete(mm, kk)
							mm[nkk] = v
							return r
						})
						add("dupkey:"+nkk, append(append(Path{}, pp...), kk), func(r any) any {
							m, ok := Get(r, pp)
							if !ok {
								return r
							}
							mm, ok := m.(map[string]any)
							if !ok {
								return r
							}
							mm[nkk] = Clone(mm[kk])
							return r
						})
					}
				}
				if o.Structural && len(ks) >= 2 {
					a, b := ks[0], ks[len(ks)-1]
					add("swapvals", pp, func(r any) any {
						m, _ := Get(r, pp)
						mm, ok := m.(map[string]any)
						if !ok {
							return r
						}
						mm[a], mm[b] = mm[b], mm[a]
						return r
					})
				}
			}
		case []any:
			if !o.Structural {
				return
			}
			if len(x) >= 1 {
				add("truncate", pp, func(r any) any { return Set(r, pp, append([]any{}, x[:len(x)-1]...)) })
				add("dupelem", pp, func(r any) any { return Set(r, pp, append(append([]any{}, x...), Clone(x[len(x)-1]))) })
				add("appendnull", pp, func(r any) any { return Set(r, pp, append(append([]any{}, x...), nil)) })
				add("emptyarr", pp, func(r any) any { return Set(r, pp, []any{}) })
			}
			if len(x) >= 2 {
				add("swapelems", pp, func(r any) any {
					nx := append([]any{}, x...)
					nx[0], nx[len(nx)-1] = nx[len(nx)-1], nx[0]
					return Set(r, pp, nx)
				})
			}
		}
	})
	return out
}

// Apply runs a mutation on a deep copy of root and returns the encoded result.
func (m Mutation) Apply(root any) []byte {
	return Encode(m.Do(Clone(root)))
}
