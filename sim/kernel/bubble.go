package kernel

import (
	"fmt"
	"runtime/debug"
	"testing"
	"testing/synctest"
	"time"
)

// BubbleEpoch is the instant at which every synctest bubble's clock starts.
var BubbleEpoch = time.Date(2000, 1, 1, 0, 0, 0, 0, time.UTC)

// InBubble runs f inside a synctest bubble: time.Now() inside gabi reads the
// simulated clock (starting at BubbleEpoch), advanced only by time.Sleep.
// A panic inside f is returned, not propagated.
func InBubble(t *testing.T, f func()) (panicked any) {
	synctest.Test(t, func(*testing.T) {
		defer func() {
			if e := recover(); e != nil {
				panicked = fmt.Sprintf("%v\n%s", e, debug.Stack())
			}
		}()
		f()
	})
	return
}
