package kernel

import (
	"fmt"
	"time"

	"github.com/privacybydesign/gabi/big"
	"github.com/privacybydesign/gabi/revocation"
)

// RevAuthority is the revocation-authority shell: it owns the accumulator chain
// of one key and is the ledger (ground truth) for everything revocation checks
// compare against. All gabi calls are real; the shell only keeps the history.
type RevAuthority struct {
	Key    *Key
	Accs   []*revocation.Accumulator       // Accs[i] = accumulator with Index i (latest signing time)
	SAccs  []*revocation.SignedAccumulator // matching signed form
	Events []*revocation.Event             // Events[i].Index == i; Events[0] is the initial event
	// Revoked[i] is the value removed by event i (i >= 1).
}

// NewRevAuthority creates accumulator 0 with gabi's NewAccumulator.
func NewRevAuthority(k *Key) (*RevAuthority, error) {
	u, err := revocation.NewAccumulator(k.Sk)
	if err != nil {
		return nil, err
	}
	acc, err := u.SignedAccumulator.UnmarshalVerify(k.Pk)
	if err != nil {
		return nil, err
	}
	return &RevAuthority{Key: k, Accs: []*revocation.Accumulator{acc}, SAccs: []*revocation.SignedAccumulator{u.SignedAccumulator}, Events: u.Events}, nil
}

func (ra *RevAuthority) Head() int { return len(ra.Accs) - 1 }

// NewWitness issues a witness against the accumulator with index at.
func (ra *RevAuthority) NewWitness(at int) (*revocation.Witness, error) {
	w, err := revocation.RandomWitness(ra.Key.Sk, ra.Accs[at])
	if err != nil {
		return nil, err
	}
	// the issuer hands out its own signed accumulator; across the wire this becomes a separate object
	sacc := *ra.SAccs[at]
	w.SignedAccumulator = &sacc
	w.Updated = time.Unix(ra.Accs[at].Time, 0)
	return w, nil
}

// Revoke removes e from the head accumulator (gabi's Accumulator.Remove + Sign).
func (ra *RevAuthority) Revoke(e *big.Int) error {
	head := ra.Head()
	acc, ev, err := ra.Accs[head].Remove(ra.Key.Sk, e, ra.Events[head])
	if err != nil {
		return err
	}
	sacc, err := acc.Sign(ra.Key.Sk)
	if err != nil {
		return err
	}
	ra.Accs = append(ra.Accs, acc)
	ra.SAccs = append(ra.SAccs, sacc)
	ra.Events = append(ra.Events, ev)
	return nil
}

// Resign signs the accumulator with index i again at the current (simulated) time.
func (ra *RevAuthority) Resign(i int) error {
	acc := *ra.Accs[i]
	acc.Time = time.Now().Unix()
	sacc, err := acc.Sign(ra.Key.Sk)
	if err != nil {
		return err
	}
	ra.Accs[i] = &acc
	ra.SAccs[i] = sacc
	return nil
}

// Update builds a fresh update message for the window of events [s..t] ending at
// accumulator t (s > t gives an update without events).
func (ra *RevAuthority) Update(s, t int) (*revocation.Update, error) {
	if t < 0 || t > ra.Head() || s < 0 {
		return nil, fmt.Errorf("bad window %d..%d", s, t)
	}
	var evs []*revocation.Event
	if s <= t {
		evs = append(evs, ra.Events[s:t+1]...)
	}
	acc := *ra.Accs[t]
	return revocation.NewUpdate(ra.Key.Sk, &acc, evs)
}

// RevokedIn reports whether e was removed by an event with index in (from..to].
func (ra *RevAuthority) RevokedIn(e *big.Int, from, to int) bool {
	for i := from + 1; i <= to && i < len(ra.Events); i++ {
		if i >= 1 && ra.Events[i].E.Cmp(e) == 0 {
			return true
		}
	}
	return false
}

// PinTime re-signs accumulator i with a fixed time (engine T-race runs outside a
// synctest bubble: no real clock value may reach a message).
func (ra *RevAuthority) PinTime(i int, t int64) error {
	acc := *ra.Accs[i]
	acc.Time = t
	sacc, err := acc.Sign(ra.Key.Sk)
	if err != nil {
		return err
	}
	ra.Accs[i] = &acc
	ra.SAccs[i] = sacc
	return nil
}
