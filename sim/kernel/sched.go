package kernel

import (
	"crypto/sha256"
	"encoding/binary"
	"encoding/hex"
	"fmt"
	"io"
	mrand "math/rand/v2"
	"os"
	"runtime"
	"strings"
	"sync"
)

// Sched is the controlled scheduler of engine T-race: tasks are real goroutines
// running real gabi code, exactly one of them runs at a time, and which one is
// decided from the schedule vector at every yield point (every crypto/rand draw
// through SimReader and every simhook.Yield site in the library).
//
// The baton is passed by spinning on a plain word inside //go:norace functions,
// which serialises execution without creating a happens-before edge the race
// detector can see: conflicting accesses are judged by the library's own
// synchronisation only (DESIGN section 2.4).
type Sched struct {
	choices  []uint16
	pos      int
	cur      int32
	done     []bool
	n        int
	steps    int
	MaxSteps int
	// Everything below is written by the baton holder inside //go:norace functions using plain
	// stores into preallocated arrays only: runtime helpers such as map assignment or slice
	// growth are race-instrumented and would report the scheduler's own state.
	sw      []SwitchRec
	nsw     int
	yields  []string
	nyields int
	panics  [64]string
	npanics int
	Buggify map[string]bool
	readers []*mrand.ChaCha8
	libSeed uint64
	seq     int64

	buggifyHits int

	// entropy fault: crypto/rand reads number FailFrom .. FailFrom+FailCount-1 of task FailTask (counted per
	// task, from 1, so that the fault point does not depend on the interleaving) return an error;
	// FailCount 0 means every read from FailFrom on
	FailTask, FailFrom, FailCount int
	taskReads                     []int
	failed                        int
}

// EntropyFailures is the number of reads that were made to fail.
//
//go:norace
func (s *Sched) EntropyFailures() int { return s.failed }

// SwitchRec is one context switch that actually happened.
type SwitchRec struct {
	From int32
	Site string
	To   int32
}

// NewSched creates a scheduler for n tasks with the given schedule vector.
func NewSched(n int, choices []uint16, libSeed uint64, buggify map[string]bool) *Sched {
	s := &Sched{choices: choices, cur: -1, done: make([]bool, n), n: n, MaxSteps: 200000, Buggify: buggify, libSeed: libSeed,
		sw: make([]SwitchRec, 1<<14), yields: make([]string, 1<<16), FailTask: -1, taskReads: make([]int, n)}
	for i := 0; i < n; i++ {
		var seed [32]byte
		binary.LittleEndian.PutUint64(seed[:8], libSeed)
		binary.LittleEndian.PutUint64(seed[8:16], uint64(i)+1)
		copy(seed[16:], "gabi-verif-task")
		s.readers = append(s.readers, mrand.NewChaCha8(seed))
	}
	return s
}

//go:norace
func (s *Sched) waitTurn(id int32) {
	for s.cur != id {
		runtime.Gosched()
	}
}

//go:norace
func (s *Sched) current() int32 { return s.cur }

// pick chooses the next task to run. Choice 0 keeps the current task running,
// so that the shrunk form of a schedule is "no pre-emption".
//
//go:norace
func (s *Sched) pick(id int32, leaving bool) int32 {
	var runnable [256]int32
	nr := 0
	if !leaving {
		runnable[nr] = id
		nr++
	}
	for i := 0; i < s.n && nr < len(runnable); i++ {
		if int32(i) != id && !s.done[i] {
			runnable[nr] = int32(i)
			nr++
		}
	}
	if nr == 0 {
		return -1
	}
	s.steps++
	if s.pos >= len(s.choices) || s.steps > s.MaxSteps {
		return runnable[0]
	}
	c := s.choices[s.pos]
	s.pos++
	return runnable[int(c)%nr]
}

// Yield is a scheduling point of the running task.
//
//go:norace
func (s *Sched) Yield(site string) {
	id := s.cur
	if id < 0 {
		return // no simulation in progress (set-up code)
	}
	if s.nyields < len(s.yields) {
		s.yields[s.nyields] = site
		s.nyields++
	}
	next := s.pick(id, false)
	if next != id && next >= 0 {
		if s.nsw < len(s.sw) {
			s.sw[s.nsw] = SwitchRec{id, site, next}
			s.nsw++
		}
		s.cur = next
		s.waitTurn(id)
	}
}

//go:norace
func (s *Sched) finish(id int32, panicked any) {
	if panicked != nil && s.npanics < len(s.panics) {
		s.panics[s.npanics] = fmt.Sprintf("task %d: %v", id, panicked)
		s.npanics++
	}
	s.done[id] = true
	s.cur = s.pick(id, true)
}

//go:norace
func (s *Sched) start(first int32) { s.cur = first }

// BuggifyAt reports whether the cooperative fault at site is enabled in this run.
//
//go:norace
func (s *Sched) BuggifyAt(site string) bool {
	if s.cur < 0 {
		return false
	}
	if s.Buggify[site] {
		s.buggifyHits++
		return true
	}
	return false
}

// BuggifyHits is how often a cooperative fault point actually fired.
func (s *Sched) BuggifyHits() int { return s.buggifyHits }

// Run executes the tasks under the scheduler and returns when all have finished.
func (s *Sched) Run(tasks []func()) {
	var wg sync.WaitGroup
	for i, f := range tasks {
		wg.Add(1)
		go func(id int32, f func()) {
			defer wg.Done()
			s.waitTurn(id)
			defer func() { s.finish(id, recover()) }()
			f()
		}(int32(i), f)
	}
	first := int32(0)
	if len(s.choices) > 0 {
		first = int32(int(s.choices[0]) % len(tasks))
		s.pos = 1
	}
	s.start(first)
	wg.Wait()
	s.cur = -1
}

// Switches lists the context switches that happened.
func (s *Sched) Switches() []SwitchRec { return s.sw[:s.nsw] }

// YieldSites is the histogram of yield sites reached.
func (s *Sched) YieldSites() map[string]int {
	m := map[string]int{}
	for _, y := range s.yields[:s.nyields] {
		m[y]++
	}
	return m
}

// Panics lists tasks that panicked.
func (s *Sched) Panics() []string { return append([]string{}, s.panics[:s.npanics]...) }

// SwitchHash is the interleaving-coverage fingerprint: hash of the sequence of (task, site, next).
func (s *Sched) SwitchHash() string {
	h := sha256.New()
	for _, r := range s.Switches() {
		fmt.Fprintf(h, "%d@%s->%d;", r.From, r.Site, r.To)
	}
	return hex.EncodeToString(h.Sum(nil)[:8])
}

// SimReader replaces crypto/rand.Reader during a T run: bytes come from the
// running task's own stream (so a task's randomness does not depend on the
// interleaving) and every read is a yield point.
type SimReader struct {
	S        *Sched
	Fallback io.Reader
}

//go:norace
func (r *SimReader) Read(p []byte) (int, error) {
	id := r.S.current()
	if id < 0 {
		return r.Fallback.Read(p)
	}
	r.S.Yield("crypto/rand.Read")
	s := r.S
	s.taskReads[id]++
	if k := s.taskReads[id]; int(id) == s.FailTask && s.FailFrom > 0 && k >= s.FailFrom && (s.FailCount == 0 || k < s.FailFrom+s.FailCount) {
		s.failed++
		return 0, ErrEntropy
	}
	s.readers[id].Read(p)
	return len(p), nil
}

// ---------------------------------------------------------------------------
// race-detector log watching (the test binary is built with -race; GORACE log_path
// points at a per-process file whose growth during a run is that run's race report)

type RaceLog struct {
	path string
	off  int64
}

// OpenRaceLog locates this process's race log (prefix.PID). It is absent until the first report.
func OpenRaceLog(prefix string) *RaceLog {
	if prefix == "" {
		return nil
	}
	return &RaceLog{path: fmt.Sprintf("%s.%d", prefix, os.Getpid())}
}

// New returns what the race detector reported since the last call.
func (l *RaceLog) New() string {
	if l == nil {
		return ""
	}
	b, err := os.ReadFile(l.path)
	if err != nil || int64(len(b)) <= l.off {
		return ""
	}
	out := string(b[l.off:])
	l.off = int64(len(b))
	return out
}

// RaceClass names a report by the innermost gabi frames of its two stacks.
func RaceClass(report string) (string, string) {
	const mod = "github.com/privacybydesign/gabi"
	var tops []string
	lines := strings.Split(report, "\n")
	inStack := false
	for _, l := range lines {
		t := strings.TrimSpace(l)
		if strings.HasPrefix(t, "Read at") || strings.HasPrefix(t, "Write at") || strings.HasPrefix(t, "Previous read at") || strings.HasPrefix(t, "Previous write at") {
			inStack = true
			continue
		}
		if t == "" {
			inStack = false
			continue
		}
		if inStack && strings.Contains(t, mod) && !strings.HasPrefix(t, "/") {
			fn := t[strings.Index(t, mod)+len(mod):]
			if k := strings.LastIndex(fn, "("); k > 0 {
				fn = fn[:k]
			}
			fn = strings.TrimLeft(fn, "/.")
			if strings.HasPrefix(fn, "big.") {
				continue
			}
			tops = append(tops, fn)
			inStack = false
		}
		if len(tops) == 2 {
			break
		}
	}
	for len(tops) < 2 {
		tops = append(tops, "unknown")
	}
	if tops[0] > tops[1] {
		tops[0], tops[1] = tops[1], tops[0]
	}
	first := report
	if i := strings.Index(report, "=================="); i >= 0 {
		first = report[i:]
	}
	if len(first) > 3000 {
		first = first[:3000]
	}
	return tops[0] + "/" + tops[1], first
}

// Tick returns the next global event sequence number (history stamps). Only the
// running task calls it, so it is a plain increment in a norace function.
//
//go:norace
func (s *Sched) Tick() int64 {
	s.seq++
	return s.seq
}
