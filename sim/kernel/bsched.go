package kernel

import (
	"bytes"
	"crypto/sha256"
	"encoding/binary"
	"encoding/hex"
	"errors"
	"fmt"
	"io"
	mrand "math/rand/v2"
	"runtime"
	"sort"
	"strconv"
	"sync"
	"testing"
	"testing/synctest"
)

// BSched is the controlled scheduler of engine T-bubble. Tasks (harness tasks and
// the library's own goroutines, which announce themselves through
// simhook.Spawned) run inside one synctest bubble; each parks on its own channel
// at every yield point and the scheduler grants exactly one of them at a time.
// After each grant synctest.Wait() tells the scheduler that every goroutine of
// the bubble is durably blocked again: the granted task has parked at its next
// yield point, exited, or blocked inside the library (channel send/receive,
// WaitGroup) — without the scheduler modelling channels itself. Goroutines that
// are still blocked in the library when no task is runnable any more are leaks.
type BSched struct {
	mu      sync.Mutex
	tasks   map[int64]*btask // by goroutine id
	order   []*btask         // in id order
	nextID  int
	choices []uint16
	pos     int
	steps   int
	Max     int
	libSeed uint64
	Sw      []string // switch log "id:name@site"
	Buggify map[string]bool
	Knobs   map[string]int
	fallbk  io.Reader
	// entropy fault: reads number FailFrom .. FailFrom+FailCount-1 (counted over all tasks, from 1) return
	// an error; FailCount 0 with FailFrom > 0 means every read from FailFrom on
	FailFrom, FailCount int
	reads, Failed       int
}

// ErrEntropy is what a failing simulated entropy source returns.
var ErrEntropy = errors.New("simulated entropy source failure")

type btask struct {
	id     int // assigned when the scheduler first sees the task
	gid    int64
	name   string
	ch     chan struct{}
	state  int // 0 parked (runnable), 1 granted/running or blocked in the library, 2 exited
	site   string
	rnd    *mrand.ChaCha8
	grants int
}

func NewBSched(choices []uint16, libSeed uint64, buggify map[string]bool, knobs map[string]int, fallback io.Reader) *BSched {
	return &BSched{tasks: map[int64]*btask{}, choices: choices, Max: 400000, libSeed: libSeed, Buggify: buggify, Knobs: knobs, fallbk: fallback}
}

func goid() int64 {
	var buf [64]byte
	n := runtime.Stack(buf[:], false)
	// "goroutine 123 [running]:..."
	b := buf[:n]
	b = b[len("goroutine "):]
	if i := bytes.IndexByte(b, ' '); i > 0 {
		b = b[:i]
	}
	id, _ := strconv.ParseInt(string(b), 10, 64)
	return id
}

// Spawned registers the calling goroutine as a task and parks it until first granted.
func (s *BSched) Spawned(name string) {
	t := &btask{gid: goid(), name: name, ch: make(chan struct{}), id: -1, site: "spawned"}
	s.mu.Lock()
	s.tasks[t.gid] = t
	s.mu.Unlock()
	<-t.ch
}

// Exited marks the calling task as finished.
func (s *BSched) Exited(name string) {
	s.mu.Lock()
	if t := s.tasks[goid()]; t != nil {
		t.state = 2
	}
	s.mu.Unlock()
}

func (s *BSched) me() *btask {
	s.mu.Lock()
	t := s.tasks[goid()]
	s.mu.Unlock()
	return t
}

// Yield parks the calling task at a scheduling point.
func (s *BSched) Yield(site string) {
	t := s.me()
	if t == nil {
		return // a goroutine the simulation does not know (set-up code)
	}
	s.mu.Lock()
	t.state, t.site = 0, site
	s.mu.Unlock()
	<-t.ch
}

func (s *BSched) BuggifyAt(site string) bool { return s.Buggify[site] }

func (s *BSched) Knob(site string, def int) int {
	if v, ok := s.Knobs[site]; ok {
		return v
	}
	return def
}

// Read serves crypto/rand draws from the calling task's own stream; every draw is a yield point.
func (s *BSched) Read(p []byte) (int, error) {
	t := s.me()
	if t == nil {
		return s.fallbk.Read(p)
	}
	s.Yield("crypto/rand.Read")
	s.mu.Lock()
	s.reads++
	fail := s.FailFrom > 0 && s.reads >= s.FailFrom && (s.FailCount == 0 || s.reads < s.FailFrom+s.FailCount)
	if fail {
		s.Failed++
	}
	s.mu.Unlock()
	if fail {
		return 0, ErrEntropy
	}
	t.rnd.Read(p)
	return len(p), nil
}

// Drive runs the scheduling loop until no task is runnable. It must be called from
// the bubble's root goroutine. It returns the tasks that are neither exited nor
// runnable (blocked inside the library) and whether the step budget ran out.
func (s *BSched) Drive(stopWhen func() bool) (blocked []string, exhausted bool) {
	last := -1
	for {
		synctest.Wait()
		s.mu.Lock()
		// give identities to tasks seen for the first time: goroutines spawned together are
		// indistinguishable until first granted, so any fixed rule is deterministic
		var fresh []*btask
		for _, t := range s.tasks {
			if t.id < 0 {
				fresh = append(fresh, t)
			}
		}
		sort.Slice(fresh, func(i, j int) bool { return fresh[i].name < fresh[j].name })
		for _, t := range fresh {
			t.id = s.nextID
			s.nextID++
			var seed [32]byte
			binary.LittleEndian.PutUint64(seed[:8], s.libSeed)
			binary.LittleEndian.PutUint64(seed[8:16], uint64(t.id)+1)
			copy(seed[16:], "gabi-verif-btask")
			t.rnd = mrand.NewChaCha8(seed)
			s.order = append(s.order, t)
		}
		var runnable []*btask
		for _, t := range s.order {
			if t.state == 0 {
				runnable = append(runnable, t)
			}
		}
		s.mu.Unlock()
		if len(runnable) == 0 || (stopWhen != nil && stopWhen()) {
			break
		}
		s.steps++
		if s.steps > s.Max {
			exhausted = true
			break
		}
		// choice 0 = keep the task that ran last if it is runnable, else lowest id
		idx := 0
		for i, t := range runnable {
			if t.id == last {
				idx = i
			}
		}
		if s.pos < len(s.choices) {
			c := int(s.choices[s.pos])
			s.pos++
			if c != 0 {
				idx = (idx + c) % len(runnable)
			}
		}
		t := runnable[idx]
		if t.id != last && len(s.Sw) < 1<<14 {
			s.Sw = append(s.Sw, fmt.Sprintf("%d:%s@%s", t.id, t.name, t.site))
		}
		last = t.id
		s.mu.Lock()
		t.state = 1
		t.grants++
		s.mu.Unlock()
		t.ch <- struct{}{}
	}
	s.mu.Lock()
	for _, t := range s.order {
		if t.state == 1 {
			blocked = append(blocked, fmt.Sprintf("%s(last yield %s)", t.name, t.site))
		}
	}
	s.mu.Unlock()
	return
}

// Runnable reports how many tasks are parked at a yield point.
func (s *BSched) Steps() int { return s.steps }

func (s *BSched) SwitchHash() string {
	h := sha256.New()
	for _, x := range s.Sw {
		h.Write([]byte(x))
		h.Write([]byte{';'})
	}
	return hex.EncodeToString(h.Sum(nil)[:8])
}

// TaskNames lists all tasks ever registered with their final state.
func (s *BSched) TaskStates() map[string]int {
	m := map[string]int{}
	s.mu.Lock()
	for _, t := range s.order {
		m[fmt.Sprintf("%s:%s", t.name, []string{"parked", "blocked-in-library", "exited"}[t.state])]++
	}
	s.mu.Unlock()
	return m
}

// InBubbleLeaky runs f in a synctest bubble and additionally survives the
// end-of-bubble "blocked goroutines remain" panic, which is how goroutines the
// code under test leaked make themselves known.
func InBubbleLeaky(t *testing.T, f func()) (panicked any, bubbleDeadlock bool) {
	defer func() {
		if e := recover(); e != nil {
			bubbleDeadlock = true
		}
	}()
	panicked = InBubble(t, f)
	return
}
