#!/usr/bin/env python3
"""fixrecheck — sensitivity of the checks to each repaired defect.

For every `fixed: property=<id> <commit> ...` line of known_findings.jsonl the commit is reverted in
/repo's working tree (git revert -n; skipped if it conflicts with later commits), the property's
quick check is run with a reduced budget and must report a violation, and /repo is restored.
Results: /verif/seeded/fixrecheck.json.
"""
import json, os, re, subprocess, sys, time

VERIF = os.path.dirname(os.path.abspath(__file__))


def sh(cmd, cwd=None, env=None):
    e = dict(os.environ, GOFLAGS="-mod=mod", GOPROXY="off")
    e.pop("GOTOOLCHAIN", None)
    e.update(env or {})
    p = subprocess.run(cmd, cwd=cwd, shell=True, env=e, stdout=subprocess.PIPE, stderr=subprocess.STDOUT, text=True)
    return p.returncode, p.stdout


def main():
    out_path = os.path.join(VERIF, "seeded", "fixrecheck.json")
    res = json.load(open(out_path)) if os.path.exists(out_path) else {}
    only = set(sys.argv[1:])
    for line in open(os.path.join(VERIF, "known_findings.jsonl")):
        m = re.match(r"fixed: property=(C\d+) ([0-9a-f]{7,}) (.*)", line)
        if not m:
            continue
        prop, h, what = m.groups()
        if only and h not in only:
            continue
        if sh("git -C /repo status --porcelain")[1].strip():
            print("ERROR /repo not clean")
            sys.exit(2)
        rc, o = sh("git -C /repo revert -n %s" % h)
        if rc != 0:
            sh("git -C /repo revert --abort; git -C /repo reset -q --hard")
            res[h] = {"property": prop, "reverts_cleanly": False, "what": what[:120]}
            print(h, prop, "revert conflicts with later commits: skipped")
            json.dump(res, open(out_path, "w"), indent=1, sort_keys=True)
            continue
        try:
            rcb, ob = sh("go build ./... && go build -tags verif ./...", cwd="/repo")
            if rcb != 0:
                res[h] = {"property": prop, "reverts_cleanly": True, "builds": False, "what": what[:120]}
                print(h, prop, "does not build after revert: skipped")
                continue
            t0 = time.time()
            rc, o = sh("./check %s quick" % prop, cwd=VERIF, env={"VERIF_BUDGET_S": os.environ.get("VERIF_BUDGET_S", "40")})
            cls = [l.strip() for l in o.splitlines() if l.strip().startswith("class=")]
            res[h] = {"property": prop, "reverts_cleanly": True, "builds": True, "caught": rc == 1, "exit": rc, "wall_s": round(time.time() - t0),
                      "class": cls[0].split(" ")[0][6:] if cls else "", "what": what[:120]}
            print(h, prop, "caught" if rc == 1 else "MISSED (exit %d)" % rc, res[h]["class"])
        finally:
            sh("git -C /repo reset -q --hard")
        json.dump(res, open(out_path, "w"), indent=1, sort_keys=True)


if __name__ == "__main__":
    main()
