#!/usr/bin/env python3
"""Regenerates MANIFEST.json from checkconf.py (keeps the two in step)."""
import json, os, subprocess
from checkconf import PROPS, NOT_APPLICABLE, LEVEL_TEXT

here = os.path.dirname(os.path.abspath(__file__))
hooks = subprocess.run(["git", "-C", "/repo", "log", "--format=%H %s"], capture_output=True, text=True).stdout.splitlines()
hook_commits = [l.split()[0] for l in hooks if " verif hooks" in l]
checks = []
for pid in sorted(PROPS):
    c = PROPS[pid]
    lt = LEVEL_TEXT[pid]
    checks.append({
        "property_id": pid,
        "quick_cmd": "./check %s quick" % pid,
        "thorough_cmd": "./check %s thorough" % pid,
        "evidence_file": "/verif/evidence/%s.json" % pid,
        "replay_cmd_template": "./check %s --replay {path}" % pid,
        "engine": lt["engine"],
        "level_claimed": {"category": c["level"], "text": lt["text"], "design_ref": lt["design_ref"]},
        "level_note": lt["note"],
        "technique": lt["technique"],
    })
m = {
    "version": 1,
    "setup_cmd": "./check setup",
    "hooks": {
        "guard": "verif (Go build tag)",
        "enable": "go test -c -tags verif [-race] ./checks in /verif/sim (module replace github.com/privacybydesign/gabi => /repo)",
        "baseline_off_cmd": "cd /repo && GOFLAGS=-mod=mod GOPROXY=off go test -vet=off -count=1 -timeout 25m ./...",
        "source_commits": hook_commits,
        "add_only": True,
    },
    "engines": [
        {"name": "S", "path": "/verif/sim", "serves_properties": [p for p in sorted(PROPS) if LEVEL_TEXT[p]["engine"].startswith("S")],
         "kind_free_text": "single-threaded protocol-world simulation inside a testing/synctest bubble: party shells around real gabi calls, harness transport with path-addressed faults, ledger oracle; rapid-drawn JSON spec is the replay file"},
        {"name": "T", "path": "/verif/sim", "serves_properties": [p for p in sorted(PROPS) if LEVEL_TEXT[p]["engine"].startswith("T")],
         "kind_free_text": "controlled scheduler over real goroutines: one task runs at a time, switches only at yield points (crypto/rand draws and verif-tagged simhook sites), schedule vector drawn by rapid; race-detector build or synctest bubble"},
    ],
    "checks": checks,
    "not_applicable": NOT_APPLICABLE,
    "notes": "Technique family: deterministic simulation with fault injection. See DESIGN.md. Every check rebuilds the test binary from /repo's working tree (go test -c -tags verif). Replay files are JSON specs under /verif/replays/<id>/ (written at run time, not committed).",
}
json.dump(m, open(os.path.join(here, "MANIFEST.json"), "w"), indent=1)
print("wrote MANIFEST.json with", len(checks), "checks")
